#!/usr/bin/env python3
"""Regenerate MANIFEST.json from the table below (kept valid at all times)."""
import json, os
VERIF = os.path.dirname(os.path.dirname(os.path.abspath(__file__)))
sys_path = os.path.join(VERIF, 'tools')
import importlib.util
spec = importlib.util.spec_from_file_location('manifest_table', os.path.join(VERIF, 'tools', 'manifest_table.py'))
T = importlib.util.module_from_spec(spec); spec.loader.exec_module(T)

props = [json.loads(l) for l in open(os.path.join(VERIF, 'properties.jsonl'))]
checks = []
na = []
for p in props:
    pid = p['id']
    if pid in T.CHECKS and os.path.exists(os.path.join(VERIF, 'vp', 'props', pid.lower() + '.py')):
        c = T.CHECKS[pid]
        checks.append({
            'property_id': pid,
            'quick_cmd': '/venv/bin/python -m vp.run %s --tier quick' % pid,
            'thorough_cmd': '/venv/bin/python -m vp.run %s --tier thorough' % pid,
            'evidence_file': 'evidence/%s.json' % pid,
            'replay_cmd_template': '/venv/bin/python -m vp.run %s --replay {path}' % pid,
            'engine': 'vp',
            'level_claimed': {'category': 'exploration', 'text': c['text'], 'design_ref': 'DESIGN.md section 4, %s' % pid},
            'level_note': c['note'],
            'technique': c['technique'],
        })
    else:
        na.append({'property_id': pid, 'reason': T.NA.get(pid, 'check not built yet in this session; planned in DESIGN.md section 4')})
m = {
    'version': 1,
    'setup_cmd': T.SETUP,
    'hooks': {'guard': 'PYMODELCHECKING_VERIF', 'enable': 'no hooks are needed: every observation point is public API (pure Python, imported from /repo by each check)',
              'baseline_off_cmd': 'cd /repo && /venv/bin/python -m pytest -ra -q -p no:cacheprovider --timeout=900 --continue-on-collection-errors',
              'source_commits': [], 'add_only': True},
    'engines': [{'name': 'vp', 'path': 'vp/', 'serves_properties': [c['property_id'] for c in checks],
                 'kind_free_text': 'Hypothesis (random + stateful) and exhaustive small-scope enumerators sharded over 16 processes, against independent reference semantics / metamorphic oracles'}],
    'checks': checks,
    'notes': T.NOTES,
    'not_applicable': na,
}
json.dump(m, open(os.path.join(VERIF, 'MANIFEST.json'), 'w'), indent=1)
print('checks:', [c['property_id'] for c in checks]); print('not_applicable:', [x['property_id'] for x in na])
