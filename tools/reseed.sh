#!/bin/bash
# Re-run every stored seeded change against the check of the property it was aimed at (quick tier),
# in a scratch worktree of /repo HEAD; refreshes seeded/<name>/meta.json.
cd /verif
for d in seeded/*/; do
  name=$(basename $d)
  [ -f $d/meta.json ] || continue
  prop=$(python3 -c "import json;print(json.load(open('$d/meta.json'))['property'])")
  timeout 3000 tools/seedcheck.py $d --name $name --prop $prop --checks $prop 2>&1 | grep "quick:\|NOT confirmed" | sed "s/^/$name /"
done
