#!/venv/bin/python
"""Sensitivity campaign: apply one mutant at a time to a scratch copy of /repo, confirm the
repository's own tests still pass (or record that they do not), run the listed checks with
VERIF_REPO pointing at the copy, and record whether each check reports a VIOLATION.

  tools/sens.py [--only ID[,ID]] [--tier quick] [--file sensitivity/mutants.json]

Mutants are {id, file, old, new, props:[...], note}; `old` must occur exactly once in file.
A seeded patch can be given instead as {id, patch: path, props}.
Nothing is written under /repo or /verif except sensitivity/results.json.
"""
import argparse, json, os, shutil, subprocess, sys, tempfile, time

VERIF = os.path.dirname(os.path.dirname(os.path.abspath(__file__)))
REPO = '/repo'


def _limits():
    import resource
    resource.setrlimit(resource.RLIMIT_AS, (24 << 30, 24 << 30))


def run(cmd, cwd, env=None, timeout=1500):
    import signal
    t = time.time()
    p = subprocess.Popen(cmd, cwd=cwd, env=env, stdout=subprocess.PIPE, stderr=subprocess.STDOUT,
                         text=True, preexec_fn=_limits, start_new_session=True)
    try:
        out, _ = p.communicate(timeout=timeout)
    except subprocess.TimeoutExpired:
        try:
            os.killpg(p.pid, signal.SIGKILL)
        except Exception:
            pass
        p.wait()
        return 124, 'TIMEOUT after %ss' % timeout, time.time() - t
    return p.returncode, out, time.time() - t


def main():
    ap = argparse.ArgumentParser()
    ap.add_argument('--only')
    ap.add_argument('--props')
    ap.add_argument('--tier', default='quick')
    ap.add_argument('--file', default=os.path.join(VERIF, 'sensitivity', 'mutants.json'))
    ap.add_argument('--out', default=os.path.join(VERIF, 'sensitivity', 'results.json'))
    ap.add_argument('--skip-tests', action='store_true')
    args = ap.parse_args()
    mutants = json.load(open(args.file))
    if args.only:
        keep = set(args.only.split(','))
        mutants = [m for m in mutants if m['id'] in keep]
    results = {}
    if os.path.exists(args.out):
        results = json.load(open(args.out))
    for m in mutants:
        scratch = tempfile.mkdtemp(prefix='vp_mut_')
        try:
            dst = os.path.join(scratch, 'repo')
            os.makedirs(dst)
            shutil.copytree(os.path.join(REPO, 'pyModelChecking'), os.path.join(dst, 'pyModelChecking'),
                            ignore=shutil.ignore_patterns('__pycache__'))
            if 'patch' in m:
                rc, out, _ = run(['patch', '-p1', '-i', os.path.join(VERIF, m['patch'])], dst)
                if rc != 0:
                    print(m['id'], 'PATCH FAILED', out)
                    continue
            else:
                edits = m.get('edits') or [m]
                bad = False
                for ed in edits:
                    path = os.path.join(dst, ed.get('file', m.get('file')))
                    src = open(path).read()
                    if src.count(ed['old']) != 1:
                        print(m['id'], 'ANCHOR occurs %d times: %r' % (src.count(ed['old']), ed['old'][:60]))
                        results[m['id']] = {'error': 'anchor occurs %d times' % src.count(ed['old'])}
                        bad = True
                        break
                    open(path, 'w').write(src.replace(ed['old'], ed['new']))
                if bad:
                    continue
            rec = {'props': {}, 'note': m.get('note', '')}
            if not args.skip_tests:
                env = dict(os.environ, PYTHONDONTWRITEBYTECODE='1')
                rc, out, dt = run(['/venv/bin/python', '-m', 'pytest', '-q', '-x', '-p', 'no:cacheprovider',
                                   'pyModelChecking/tests'], dst, env, timeout=120)
                rec['tests_pass'] = (rc == 0)
                rec['tests_tail'] = out.strip().splitlines()[-1] if out.strip() else ''
            props = m['props']
            if props == ['ALL']:
                props = ['C%02d' % i for i in range(1, 20)]
            if args.props:
                props = args.props.split(',')
            for pid in props:
                env = dict(os.environ, VERIF_REPO=dst, VERIF_OUT=os.path.join(scratch, 'out'),
                           PYTHONDONTWRITEBYTECODE='1')
                rc, out, dt = run(['/venv/bin/python', '-m', 'vp.run', pid, '--tier', args.tier], VERIF, env)
                viol = [l for l in out.splitlines() if l.startswith('VIOLATION')]
                detail = [l for l in out.splitlines() if l.startswith('  detail')]
                rec['props'][pid] = {'exit': rc, 'caught': rc == 1 and bool(viol), 'wall_s': round(dt, 1),
                                     'detail': (detail[0][:300] if detail else out.strip()[-300:])}
                print('%-28s %-4s exit=%d caught=%s %.1fs tests_pass=%s' % (
                    m['id'], pid, rc, rc == 1 and bool(viol), dt, rec.get('tests_pass')))
                sys.stdout.flush()
            results[m['id']] = rec
        finally:
            shutil.rmtree(scratch, ignore_errors=True)
        json.dump(results, open(args.out, 'w'), indent=1, sort_keys=True)


if __name__ == '__main__':
    main()
