SETUP = ("/venv/bin/python -c 'import hypothesis' 2>/dev/null || "
         "/venv/bin/pip install --no-index --find-links /opt/veriftools/wheels --target /verif/.deps hypothesis")
NOTES = ("All checks: cd /verif && /venv/bin/python -m vp.run <ID> --tier quick|thorough. "
         "Exit 0 held / 1 VIOLATION / 2 harness error. VERIF_SEED seeds Hypothesis; PYTHONHASHSEED is pinned to 0 by the runner. "
         "VERIF_REPO (default /repo) selects the tree under test; VERIF_OUT redirects evidence/replay output (used only by tools/sens.py).")
NA = {}
CHECKS = {
 'C12': dict(
   technique='exhaustive small-scope enumeration (all digraphs <=4 nodes x presentations) + Hypothesis random digraphs, oracle = Warshall mutual reachability',
   text='Every labelled digraph with <=4 nodes under 6 presentations and three construction routes is compared with the definition (mutual reachability via an independent transitive closure); random digraphs to 12 nodes. Exhaustive within scope, sampled beyond; no proof of absence.',
   note='Trusted: the 10-line Warshall closure in vp/graphs.py. CPython set/dict iteration order under PYTHONHASHSEED=0 determines successor order; other orders are reached through node renamings.'),
}
