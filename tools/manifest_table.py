SETUP = ("/venv/bin/python -c 'import hypothesis' 2>/dev/null || "
         "/venv/bin/pip install --no-index --find-links /opt/veriftools/wheels --target /verif/.deps hypothesis")
NOTES = ("All checks: cd /verif && /venv/bin/python -m vp.run <ID> --tier quick|thorough. "
         "Exit 0 held / 1 VIOLATION / 2 harness error. VERIF_SEED seeds Hypothesis; PYTHONHASHSEED is pinned to 0 by the runner. "
         "VERIF_REPO (default /repo) selects the tree under test; VERIF_OUT redirects evidence/replay output (used only by tools/sens.py).")
NA = {}
CHECKS = {
 'C12': dict(
   technique='exhaustive small-scope enumeration (all digraphs <=4 nodes x presentations) + Hypothesis random digraphs, oracle = Warshall mutual reachability',
   text='Every labelled digraph with <=4 nodes under 6 presentations and three construction routes is compared with the definition (mutual reachability via an independent transitive closure); random digraphs to 12 nodes. Exhaustive within scope, sampled beyond; no proof of absence.',
   note='Trusted: the 10-line Warshall closure in vp/graphs.py. CPython set/dict iteration order under PYTHONHASHSEED=0 determines successor order; other orders are reached through node renamings.'),
 'C01': dict(
   technique='exhaustive small-scope enumeration (all total Kripke structures <=3 states x all CTL formulas up to an operator bound) + Hypothesis random cases, differential against an independent fixpoint reference semantics',
   text='CTL.modelcheck is compared (both inclusions) with an independently written fixpoint evaluator on every total structure with <=3 states over {p,q} and every CTL formula with <=1 operator (<=2 operators on <=2 states), then on Hypothesis-generated structures (<=6 states) and formulas (depth <=4, n-ary and/or, text and object input). Exhaustive inside the scope, sampled beyond; not a proof.',
   note='Trusted: vp/ref.py R-CTL (cross-checked against the product-based R-STAR on every random/replayed case). State naming/collection orders vary with the structure index.'),
 'C02': dict(
   technique='exhaustive small-scope enumeration + Hypothesis random cases, differential against an independent generalised-Buchi product semantics; every excluded state certified by a lasso re-evaluated with a separate path evaluator',
   text='LTL.modelcheck(K, A g) is compared with S minus R-STAR.E(not g): all structures <=2 states x all path formulas <=2 operators, all 3-state structures x <=1 operator (thorough), random structures <=5 states with <=3 temporal operators. Each exclusion carries a concrete ultimately periodic counterexample path verified by R-PATH.',
   note='Trusted: vp/ref.py (R-STAR, R-PATH). Formula size is bounded (<=3 temporal operators) because the tableau under test is exponential; defects needing larger closures are out of reach.'),
 'C03': dict(
   technique='exhaustive small-scope enumeration + Hypothesis random cases, differential against an independent CTL* reference (recursive on quantifiers, generalised-Buchi product per quantifier)',
   text='CTLS.modelcheck is compared with R-STAR on all structures <=2 states x {A g, E g: g path formula <=2 operators}, quantifier-nesting-2 formulas and Boolean combinations, a stride of the 3-state structures, and random structures <=4 states with <=3 temporal operators per quantifier and nesting <=2; all four dispatch routes (CTL, LTL, not-A-not, fresh atom) are populated by construction and counted.',
   note='Trusted: vp/ref.py R-STAR. Atoms are p,q only; collisions between user atoms and the checker-generated atom names are outside the decided scope (DESIGN 5.3).'),
 'C13': dict(
   technique='exhaustive small-scope enumeration (all digraphs <=4 nodes x all node subsets) + Hypothesis random digraphs; oracle = set-theoretic definitions computed from the edge list, before/after snapshots',
   text='get_reachable_set_from, get_reversed_graph (and double reversal), get_subgraph (incl. non-nodes in X) and clone (with mutation on both sides) are compared with their definitions on every digraph with <=4 nodes and every node subset, and on random digraphs to 12 nodes; G is snapshotted before and after every call.',
   note='Trusted: the closure in vp/graphs.py. Independence from later mutation is asserted only for clone(), as the property words it.'),
 'C14': dict(
   technique='exhaustive small-scope enumeration of constructor argument combinations (<=3 candidate states, all relations, S/S0/L variants, all V) + Hypothesis random 4-5 states; oracle = constructor contract and induced-substructure definition',
   text='Kripke(S,S0,R,L) is built for every relation over <=3 candidate states combined with S/S0/L variants (None, subsets, outsiders, list/set/tuple values, non-string labels); success must coincide with totality (RuntimeError otherwise); every built structure is inspected (labels are sets, defaults empty, S0 intersected, non-states raise RuntimeError), cloned with mutation on both sides, and get_substructure(V) is checked for every V against the induced structure, incl. no shared label sets.',
   note='Trusted: none beyond set arithmetic. None as a state is excluded (labels(None) means the whole structure). V is always passed as a set (the documented type).'),
 'C17': dict(
   technique='exhaustive enumeration (all 256 functions of 3 variables x 6 orderings x all ordered pairs x {&,|,^}, ~, every restrict) + Hypothesis random 4-variable functions under the 24 orderings; oracle = truth tables on all assignments + structural walk',
   text='Every result diagram is walked on every assignment and compared with the pointwise operation on the operand truth tables; every reachable node must test a variable strictly earlier than its children and have distinct children; variables() must equal the variables on reachable nodes and the semantic support; in the enumerated scope the result must be the identical node of the separately parsed function; RuntimeError exactly for different orderings or outside variables (equal lists in different objects must not raise).',
   note='Trusted: truth-table arithmetic in vp/bdd.py. restrict() of a variable outside the ordering is not asserted (the property is silent).'),
 'C18': dict(
   technique='exhaustive enumeration of expressions (<=2/3 operators over a,b,c,0,1 x all argument orders) + Hypothesis random expressions depth<=4 over identifier pools + generated non-Boolean programs; oracles = cross-notation equality, print/parse round trip, truth table, exception class',
   text='OBDD(expr, args) and OBDD("lambda args: expr") must be equal (== and same root) and denote the harness-computed truth table for every style (&|~, and/or/not, mixed) and argument order; OBDD(str(o.root), o.ordering) and OBDD(str(o)) must give back o; a missing variable must raise RuntimeError and ~100 kinds of generated non-Boolean programs SyntaxError.',
   note="Trusted: vp/bdd.py truth tables (cross-checked with Python eval). '^' in strings, integral floats and complex zero are in neither class."),
 'C16': dict(
   technique='Hypothesis stateful (rule-based) machines over a pool of OBDDs with explicit drop/gc/hold steps, truth-table model, invariant over the global node table; failing op-logs minimised by delta debugging and replayed by a plain interpreter',
   text='Random histories of parse / combine / negate / restrict / re-parse / alias / drop / gc.collect / hold-inner-node / re-create steps under two orderings sharing the global unique table; after every step == and root identity must coincide with equality of harness-computed 16-bit truth tables, and a scan of every live node must find no duplicate (var, low, high), no redundant node and one terminal per value.',
   note='Trusted: vp/bdd.py truth tables. GC interleavings are those reachable with CPython refcounting plus explicit gc.collect() placement; single-threaded.'),
 'C08': dict(
   technique='exhaustive enumeration of all operator trees (depth<=2 over {true,p}; depth 3 over {p} in the thorough tier) x 4 languages x {construct, cast_to, mixed construction, modelcheck guard} + Hypothesis random trees depth<=5; oracle = hand-written membership recognisers from the documented grammars',
   text='For every tree of the union alphabet, construction in each language must succeed exactly when the tree is a formula of that language (TypeError otherwise), the object must have the same tree with every node in the language module and the right sort; cast_to and mixed-language construction for every ordered language pair must give an object of the target logic with the same tree or TypeError; every modelcheck given a non-state / out-of-logic object must raise TypeError; non-Kripke first arguments raise TypeError.',
   note='Trusted: the recognisers in vp/fm.py. In-logic objects of sibling languages handed to modelcheck are not asserted here (C04). is_a_state_formula is asserted for CTL/CTL* objects only (LTL objects answer inconsistently and the property does not name the method).'),
 'C09': dict(
   technique='exhaustive enumeration (all formulas <=2 operators per logic over adversarial atom pairs) + Hypothesis random formulas depth<=5 with n-ary and/or; round-trip oracle with tree comparison by the harness, printed-form injectivity by grouping',
   text='structure(Parser()(str(f))) must equal the tree of f and every parsed node must belong to the logic, for PL, LTL, CTL* and CTL (printed in CTL* notation), over identifier atoms that hug every keyword; over each enumerated scope printed forms (CTL* and native CTL notation) are grouped and two different trees must never share one.',
   note='Trusted: structure() reads objects by class name / atom name / child order only. Reserved words are read from Lang.symbols.'),
 'C10': dict(
   technique='Hypothesis-generated valid strings, single-token mutations, cross-feeding to all four parsers and token soup; differential against independent backtracking recognisers of the four documented grammars over every admissible tokenisation; exception class and position checked; optional atheris stage in the thorough tier',
   text='Every generated string is given to all four parsers: an accepted string must yield a formula of exactly that logic whose tree the independent recogniser also assigns to the string; a rejection must be UnexpectedToken/UnexpectedCharacters of pyModelChecking.parser with 0 <= pos <= len(text); any other exception, foreign-logic object or grammar-excluded acceptance (A F G q for CTL, E for LTL, temporal operators for PL, p and q or r, p --> q --> r) is a violation.',
   note='Trusted: vp/syn.py (tokenizer + recursive descent written from the grammar texts). Lexing is read permissively, so tokenisation effects can never raise an alarm; recogniser-accepts/parser-rejects is only reported.'),
 'C11': dict(
   technique='exhaustive pairs inside length-sorted blocks of the per-logic enumeration (~10^7 comparisons) + whole-scope set/dict key check + Hypothesis random triples; oracle = harness tree identity vs ==, !=, hash, set/dict, clone identity walk',
   text='For formulas of one logic over non-reserved identifier atoms, == / != / hash / set / dict behaviour must coincide with tree identity computed by the harness, in both argument orders and against independently built copies; clone() must be equal with the same tree and share no node object or children list; Bool(b) == b in both directions.',
   note='Trusted: harness tuples. Cross-logic equality and atoms that are reserved words are outside the property.'),
 'C07': dict(
   technique='Hypothesis stateful (rule-based) machines over a pool of structures/formulas/fairness lists with repeat-earlier-call rules; history invariant = deep identity-aware snapshots + outcome memo; op-log delta debugging',
   text='Random interleavings of modelcheck calls of the three checkers (text/object, with/without F, on the structure or a clone, in- and out-of-logic) over several structures and formulas; after every step every structure must equal its deep snapshot (contents and identity of every label/successor set, S0), every formula must have the same tree and print, and every repeated call must reproduce its memoised outcome (set or exception class).',
   note='No reference semantics is involved. Formula sizes bounded (<=2 temporal operators per quantifier).'),
 'C19': dict(
   technique='Hypothesis random structures with heterogeneous state/label types and operator-looking labels, two-step history (call, mutate the result, call again) in 16 processes; oracle = type/membership/ownership of the result, no exception, snapshot',
   text='For structures whose states are ints, strings, tuples, frozensets or mixed and whose labels include operator-looking strings and non-strings, and formulas (object or quoted text) over K\'s labels and absent names: no exception of any type, the result is a set of K\'s states, it is a fresh object not aliasing anything in K, mutating it does not change the next result, K is unchanged.',
   note='No exactness claim (C01-C03). Formula depth <= 3 (recursion limit is an interpreter setting). None/bools are not used as states.'),
 'C04': dict(
   technique='exhaustive small-scope enumeration + Hypothesis random cases of metamorphic laws (Boolean laws, A/E duality, fixpoint expansion) and differential comparison between the three checkers and between text/object input; no reference implementation',
   text='For every structure of the small scope and tables of CTL / LTL / CTL* formulas: every entry point a formula is valid for (own-language object, CTL* object, library str, independent text, sibling objects) must return one and the same set; not/and/or/-->/n-ary laws, the 10 CTL dualities, the 8 CTL fixpoint expansions, CTL* A g = not E not g for arbitrary path g, and the LTL expansion laws must hold between answers of the code under test.',
   note='No trusted reference: this check exists to catch a checker and the reference of C01-C03 being wrong in the same way. Sibling-language objects may be refused with TypeError (a different set is a violation).'),
 'C05': dict(
   technique='exhaustive enumeration (all formulas <=2 operators of CTL*, CTL, LTL) + Hypothesis random formulas depth<=4; syntactic alphabet walk + equivalence decided by the independent reference on every small-scope structure / every lasso up to a length bound',
   text='get_equivalent_restricted_formula() must return an object of the same logic using only not, or, X, U, E (CTL: E with X/U/G), atoms and Booleans, and R-STAR / R-PATH must give it the same states on every structure of S(1)+S(2) (+S(3) stride) and the same truth values at every position of every lasso with |prefix|+|loop| <= 4/5; LNot(f) must not start with two negations, stay in the logic and be equivalent to not f.',
   note='Trusted: vp/ref.py. Equivalence is decided on the small scope only. LTL.A(g) is outside the domain (restricted LTL has no quantifier).'),
 'C06': dict(
   technique='Hypothesis metamorphic testing (state bijections/namings, collection orders and container types, atom renamings, unreachable extensions) in 16 processes + differential across fresh interpreters started with different PYTHONHASHSEED values on a deterministic corpus',
   text='Each generated (K, f, checker) is re-asked under a random state bijection composed with string/tuple/mixed/print-colliding namings, six collection orders, list/set/tuple containers, a consistent atom renaming (object or text), and a disjoint extension by states not reachable from K: the answer must be the image of the base answer. A deterministic corpus with string states and multi-character atoms is evaluated by one fresh interpreter per hash seed (4 quick / 16 thorough); all seeds must agree with each other and with R-STAR.',
   note='Hash seeds are a finite sample. Part B trusts vp/ref.py; part A uses no reference.'),
}
