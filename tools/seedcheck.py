#!/venv/bin/python
"""Confirm a seeded change produced by an independent sub-agent and run the checks on it.

  tools/seedcheck.py <seed-dir> --name <name> --prop Cxx [--checks C01,C04] [--tier quick] [--keep]

<seed-dir> holds patch.diff, demo.py (and NOTES.md).  Steps, all in a scratch copy of /repo's
HEAD outside /repo and /verif (removed afterwards):
  1. demo.py must PASS (exit 0) on the unchanged tree;
  2. the patch must apply; the repository's 65 tests must still pass; demo.py must FAIL;
  3. the listed checks (default: the property's own) run with VERIF_REPO on the patched copy.
If 1-2 hold the change is stored as /verif/seeded/<name>/ {patch.diff, demo.py, NOTES.md,
meta.json}; meta.json records what was run and which checks reported a VIOLATION.
"""
import argparse
import json
import os
import shutil
import subprocess
import sys
import tempfile
import time

VERIF = os.path.dirname(os.path.dirname(os.path.abspath(__file__)))
sys.path.insert(0, os.path.join(VERIF, 'tools'))
from sens import run  # noqa: E402


def main():
    ap = argparse.ArgumentParser()
    ap.add_argument('seed_dir')
    ap.add_argument('--name', required=True)
    ap.add_argument('--prop', required=True)
    ap.add_argument('--checks')
    ap.add_argument('--tier', default='quick')
    ap.add_argument('--needs', default='')
    args = ap.parse_args()
    sd = os.path.abspath(args.seed_dir)
    scratch = tempfile.mkdtemp(prefix='vp_seedchk_')
    meta = {'property': args.prop, 'name': args.name, 'ran': [], 'checks': {}}
    try:
        tree = os.path.join(scratch, 'tree')
        rc, out, _ = run(['git', '-C', '/repo', 'worktree', 'add', '--detach', '-q', tree, 'HEAD'], '/')
        if rc != 0:
            print('cannot create worktree', out)
            return 2
        meta['repo_head'] = subprocess.check_output(['git', '-C', '/repo', 'rev-parse', '--short', 'HEAD'], text=True).strip()
        os.makedirs(os.path.join(tree, '_seed'))
        shutil.copy(os.path.join(sd, 'demo.py'), os.path.join(tree, '_seed', 'demo.py'))
        env = dict(os.environ, PYTHONDONTWRITEBYTECODE='1', PYTHONHASHSEED='0')
        env.pop('PYTHONPATH', None)
        rc, out, dt = run(['/venv/bin/python', '_seed/demo.py'], tree, env, timeout=600)
        meta['ran'].append('demo on unchanged tree: exit %d' % rc)
        print('demo on unchanged tree: exit', rc)
        if rc != 0:
            print(out[-800:])
            meta['confirmed'] = False
            return finish(args, sd, meta, False)
        rc, out, _ = run(['git', '-C', tree, 'apply', os.path.join(sd, 'patch.diff')], '/')
        meta['ran'].append('git apply patch.diff: exit %d' % rc)
        if rc != 0:
            print('patch does not apply:', out)
            return finish(args, sd, meta, False)
        rc, out, dt = run(['/venv/bin/python', '-m', 'pytest', '-q', '-p', 'no:cacheprovider',
                           'pyModelChecking/tests'], tree, env, timeout=600)
        tail = out.strip().splitlines()[-1] if out.strip() else ''
        meta['ran'].append('repository tests with the change: exit %d (%s)' % (rc, tail))
        print('tests with the change:', tail)
        tests_ok = rc == 0
        rc, out, dt = run(['/venv/bin/python', '_seed/demo.py'], tree, env, timeout=600)
        meta['ran'].append('demo with the change: exit %d' % rc)
        print('demo with the change: exit', rc)
        meta['demo_output'] = out[-600:]
        confirmed = tests_ok and rc != 0
        meta['confirmed'] = confirmed
        if not confirmed:
            return finish(args, sd, meta, False)
        checks = (args.checks or args.prop).split(',')
        for pid in checks:
            e = dict(os.environ, VERIF_REPO=tree, VERIF_OUT=os.path.join(scratch, 'out'),
                     PYTHONDONTWRITEBYTECODE='1')
            rc, out, dt = run(['/venv/bin/python', '-m', 'vp.run', pid, '--tier', args.tier], VERIF, e, timeout=5400)
            viol = [l for l in out.splitlines() if l.startswith('VIOLATION')]
            det = [l for l in out.splitlines() if l.startswith('  detail')]
            meta['checks'][pid] = {'tier': args.tier, 'exit': rc, 'caught': rc == 1 and bool(viol),
                                   'wall_s': round(dt, 1), 'detail': det[0][:400] if det else out.strip()[-300:]}
            print('%s %s: exit=%d caught=%s %.1fs' % (pid, args.tier, rc, rc == 1 and bool(viol), dt))
        return finish(args, sd, meta, True)
    finally:
        subprocess.call(['git', '-C', '/repo', 'worktree', 'remove', '--force', os.path.join(scratch, 'tree')],
                        stdout=subprocess.DEVNULL, stderr=subprocess.DEVNULL)
        shutil.rmtree(scratch, ignore_errors=True)
        subprocess.call(['git', '-C', '/repo', 'worktree', 'prune'])


def finish(args, sd, meta, keep):
    if keep:
        dst = os.path.join(VERIF, 'seeded', args.name)
        os.makedirs(dst, exist_ok=True)
        for f in ('patch.diff', 'demo.py', 'NOTES.md'):
            if os.path.exists(os.path.join(sd, f)) and os.path.abspath(sd) != os.path.abspath(dst):
                shutil.copy(os.path.join(sd, f), os.path.join(dst, f))
        mp = os.path.join(dst, 'meta.json')
        if os.path.exists(mp):
            old = json.load(open(mp))
            old_checks = old.get('checks', {})
            old_checks.update(meta['checks'])
            meta['checks'] = old_checks
            for k, v in old.items():            # keep hand-added fields (history, round, ...)
                if k not in meta:
                    meta[k] = v
        if args.needs:
            meta['needs_to_manifest'] = args.needs
        meta['at'] = time.strftime('%Y-%m-%d %H:%M:%S')
        json.dump(meta, open(mp, 'w'), indent=1, sort_keys=True)
        print('stored in', dst)
        return 0
    print('NOT confirmed:', json.dumps(meta['ran']))
    return 1


if __name__ == '__main__':
    sys.exit(main())
