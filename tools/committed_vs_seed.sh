#!/bin/bash
# Run the COMMITTED (HEAD) version of a check against a seeded change, in scratch worktrees of /verif
# and /repo under /tmp (removed afterwards): shows whether a change was missed before an extension.
#   tools/committed_vs_seed.sh <patch.diff> <CHECK-ID>
set -u
patch=$(readlink -f "$1"); pid=$2
d=$(mktemp -d /tmp/cvs_XXXX)
git -C /verif worktree add --detach -q $d/verif HEAD
git -C /repo worktree add --detach -q $d/repo HEAD
git -C $d/repo apply "$patch"
(cd $d/verif && PYTHONPATH=/verif/.deps VERIF_REPO=$d/repo VERIF_OUT=$d/out /venv/bin/python -m vp.run $pid --tier quick 2>&1 | grep -v KNOWN | tail -3)
git -C /verif worktree remove --force $d/verif; git -C /repo worktree remove --force $d/repo
git -C /verif worktree prune; git -C /repo worktree prune; rm -rf $d
