#!/usr/bin/env python3
"""Regenerate section 12 of DESIGN.md (seeded changes and which checks catch them) from
seeded/*/meta.json; everything from the marker line to the end of the file is replaced."""
import json, glob, os
V = os.path.dirname(os.path.dirname(os.path.abspath(__file__)))
MARK = '## 12. Seeded changes: which checks catch which'
rows = []
for mp in sorted(glob.glob(os.path.join(V, 'seeded', '*', 'meta.json'))):
    m = json.load(open(mp))
    name = os.path.basename(os.path.dirname(mp))
    caught = ['%s (%ss)' % (k, v['wall_s']) for k, v in sorted(m['checks'].items()) if v['caught']]
    missed = [k for k, v in sorted(m['checks'].items()) if not v['caught']]
    rows.append((name, m.get('round', 1), m['property'], m.get('needs_to_manifest', ''), caught, missed, m.get('history', '')))
out = [MARK, '',
       'Independent sub-agents (Agent tool) each received the text of ONE property and a private scratch',
       'worktree of /repo under /tmp/seed/, nothing from /verif, and were asked for a realistic change that',
       'breaks the property, still passes the 65 tests, and needs something specific to manifest, plus a',
       'demonstration program.  Round 1 agents got only that.  From round 2 on the agents were ADDITIONALLY',
       'given a prose description of what the check explores (rounds 2-5: written by hand; rounds 6-8: a file',
       'HARNESS.txt holding the rule text and scope list of the check\'s own evidence file, the mechanisms of',
       'the seeded changes already caught for that property and, in rounds 7-8, the list of dimensions the',
       'whole harness already varies) and were asked to evade it.  This goes beyond "only the property text"',
       'on purpose: it produces changes aimed at what the checks could not yet see; the meta.json of each such',
       'change says what its author was told.  `tools/seedcheck.py` confirmed every change in a scratch',
       'worktree of /repo HEAD (demo passes unchanged, patch applies, 65/65 tests pass with it, demo fails',
       'with it) before storing it under `seeded/<name>/`, and ran the quick tier of the listed checks with',
       '`VERIF_REPO` on the patched worktree (equivalent, for pure Python, to applying the patch in /repo and',
       'reverting it; /repo itself was never modified by a seeded change).  Where a row says a change was',
       'missed "as committed", `tools/committed_vs_seed.sh` ran the check from a scratch worktree of /verif',
       'HEAD against the patched tree before the extension was written.  The scratch worktrees were removed',
       'afterwards.  `tools/reseed.sh` re-runs every stored change against the check of its property.', '',
       '| seeded change | round | aimed at | caught by (quick tier, wall) | not caught by | what it needs / history |',
       '|---|---|---|---|---|---|']
for r in rows:
    note = r[3] + ((' **History:** ' + r[6]) if r[6] else '')
    out.append('| %s | %s | %s | %s | %s | %s |' % (r[0], r[1], r[2], ', '.join(r[4]) or '**none**', ', '.join(r[5]) or '-', note.replace('|', '/')))
n = len(rows)
first_missed = [r[0] for r in rows if 'MISSED' in r[6]]
out += ['', '%d seeded changes confirmed; every one is caught by the check of the property it was aimed at in the' % n,
        'quick tier as committed.  %d of them were MISSED by that check when first run (%s); each miss' % (len(first_missed), ', '.join(first_missed)),
        'led to a generator or scope extension described in the row and in section 10, not to a loosened oracle.',
        'The "not caught by" column lists other checks that were also run and (legitimately) do not see the',
        'change because their property does not cover it.', '',
        'Hand-written mutants (`sensitivity/mutants.json`, results in SENSITIVITY.md) complement these:',
        'each was applied alone to a scratch copy; equivalent mutants and two deliberate *repairs* of the',
        'fairness code are listed there as expected survivors (the repairs must not raise an alarm).', '']
rj = os.path.join(V, 'seeded', '_rejected', 'README.md')
if os.path.exists(rj):
    out += ['### Proposed changes that were not kept', ''] + [l.rstrip('\n') for l in open(rj).readlines()[1:]] + ['']
p = os.path.join(V, 'DESIGN.md')
s = open(p).read()
if MARK in s:
    s = s[:s.index(MARK)]
else:
    s = s.rstrip('\n') + '\n\n'
open(p, 'w').write(s + '\n'.join(out))
print('section 12 written:', n, 'seeded changes;', len(first_missed), 'first missed')
