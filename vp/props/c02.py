"""C02 - LTL model checking returns exactly the states whose every path satisfies g."""
from .. import core, fm, km, mc, ref
from ..core import Failure
from .c01 import minimise, NAMINGS, scope_iter

FORMS = ['obj', 'text', 'str', 'ctls', 'shared', 'raw']


def call(K, g, naming, how, form, kripke=None, atoms=None, containers='list'):
    f = ('A', g)
    if form == 'ctls':
        return mc.call('LTL', K, f, naming, how, form='obj', objlang='CTLS', kripke=kripke, atoms=atoms, containers=containers)
    return mc.call('LTL', K, f, naming, how, form=form, kripke=kripke, atoms=atoms, containers=containers)


def expected(M, g, certify=True, spot=0):
    """S minus the states with a path satisfying not g; every exclusion carries a lasso
    certificate verified by R-PATH; inclusions are spot-checked on all lassos <= spot."""
    ng = ref.abstract(M, ('not', g))
    if certify:
        bad, lassos = ref.exists_with_lassos(M, ng)
        for s, (pre, loop) in lassos.items():
            why = ref.check_lasso(M, s, pre, loop, ng)
            if why is not None:
                raise core.HarnessError('reference certificate does not verify: %s; K=%r g=%r '
                                        's=%d lasso=%r' % (why, M.K, g, s, (pre, loop)))
    else:
        bad = ref.exists(M, ng)
    good = M.full & ~bad
    if spot:
        for s in ref.mask_to_list(good):
            for states, j in ref.all_lassos(M, s, spot):
                if ref.path_eval(states, j, ng)[0]:
                    raise core.HarnessError('reference says A g holds at %d but lasso %r/%d '
                                            'satisfies not g; K=%r g=%r' % (s, states, j, M.K, g))
    return good


def check_ltl(inp):
    K = inp['K']
    g = fm.from_json(inp['g'])
    M = ref.Model(K)
    exp = expected(M, g, certify=True, spot=inp.get('spot', 4))
    out = call(K, g, inp.get('naming', 'int'), inp.get('how', 0), inp.get('form', 'obj'), atoms=inp.get('atoms'),
               containers=inp.get('containers', 'list'))
    if out == ('set', exp):
        return None
    note = ''
    if out[0] == 'set':
        note = 'missing=%s extra=%s' % (ref.mask_to_list(exp & ~out[1]),
                                        ref.mask_to_list(out[1] & ~exp))
    return Failure('ltl', inp, mc.show_mask(exp), mc.show(out), note)


VOCAB_TEMPLATES = [('G', fm.P), ('imp', ('F', fm.Q), ('U', fm.P, fm.Q)), ('or', ('X', fm.P), fm.Q), ('R', fm.P, fm.Q),
                   ('G', ('F', ('and', fm.P, ('X', fm.Q)))), ('not', fm.P)]
VOCAB_STRUCTURES = [(2, 77), (3, 1000), (3, 2345), (3, 3210)]


def vocab_shard(st, shard, nshards, payload):
    """Atoms named like the identifiers and string constants of the library's own source (vp/vocab.py)."""
    from .. import vocab
    names = vocab.names()
    Ks = [km.scope_at(n, i) for (n, i) in VOCAB_STRUCTURES]
    i = -1
    for w in names:
        for ki, K in enumerate(Ks):
            for ti, t in enumerate(VOCAB_TEMPLATES):
                i += 1
                if i % nshards != shard or (ki * 5 + ti + len(w)) % payload.get('thin', 1):
                    continue
                inp = {'K': K, 'g': t, 'naming': NAMINGS[(ki + ti) % 3], 'how': ti % 6, 'form': ('obj', 'text')[ti % 2],
                       'atoms': {'p': w}, 'spot': 0}
                st.evaluations += 1
                r = check_ltl(inp)
                if r is not None:
                    if st.failure is None:
                        st.failure = r
                    return


CHECKS = {'ltl': check_ltl}


def replay(ctx, rec):
    return CHECKS[rec['check']](rec['input'])


def prop_eval(g, s_labels, tv):
    """Propositional evaluation of g at a state with temporal subformulas replaced by tv."""
    o = g[0]
    if o == 'ap':
        return g[1] in s_labels
    if o == 'true':
        return True
    if o == 'false':
        return False
    if o == 'not':
        return not prop_eval(g[1], s_labels, tv)
    if o == 'and':
        return all(prop_eval(c, s_labels, tv) for c in g[1:])
    if o == 'or':
        return any(prop_eval(c, s_labels, tv) for c in g[1:])
    if o == 'imp':
        return (not prop_eval(g[1], s_labels, tv)) or prop_eval(g[2], s_labels, tv)
    return tv


def is_nontrivial(K, g, exp):
    """>=1 temporal operator and the answer is not decided by the first state alone."""
    if not (fm.ops(g) & set(fm.TEMP)):
        return False
    lo = hi = 0
    for i in range(K['n']):
        if prop_eval(g, K['labels'][i], False):
            lo |= 1 << i
        if prop_eval(g, K['labels'][i], True):
            hi |= 1 << i
    return exp != lo and exp != hi


def classes_of(g):
    out = []
    o = fm.ops(g)
    for t in fm.TEMP:
        if t in o:
            out.append('op ' + t)
    subs = fm.subformulas(g)
    if any(s[0] == 'U' and (fm.ops(s[1]) | fm.ops(s[2])) & set(['X', 'not']) for s in subs):
        out.append('U over X/not')
    if any(s[0] in ('U', 'R') and (fm.ops(s[1]) | fm.ops(s[2])) & set(['U', 'R', 'F', 'G']) for s in subs):
        out.append('nested U/R/F/G')
    if any(s[0] in fm.TEMP and any(c[0] in ('true', 'false') for c in s[1:]) for s in subs):
        out.append('constant under temporal operator')
    return out


payload_rep_stride = [1]


def path_scope(k):
    """k = operator bound, or 'tt' = exactly two operators, both temporal, over {p,q}: the outer
    temporal operator has a path formula as operand ((X p) R q, G F p, ...)."""
    if k == 'tt':
        return [g for g in fm.enum_exact(fm.LTL_UN, fm.LTL_BIN, (fm.P, fm.Q), 2)
                if g[0] in fm.TEMP and fm.temporal_count(g) == 2]
    if isinstance(k, str) and '/' in k:
        base, step = k.split('/')
        return path_scope(base)[::int(step)]
    if k == 'pairs':
        return temporal_pairs()
    if k == 'ctx':
        return fm.ltl_context()
    if k == 'nary':
        return fm.ltl_nary()
    if k == 'rep':
        return fm.ltl_repeated()[::payload_rep_stride[0]]
    if k == 'k3':
        # every 97th path formula with exactly 3 operators over {p,q} (207 of 20 048)
        return fm.enum_strided(fm.LTL_UN, fm.LTL_BIN, (fm.P, fm.Q), 3, 97)
    return fm.ltl_paths(k)


def temporal_pairs():
    """x op y for two one-operator temporal formulas (incl. constants as operands: X true, false U p,
    p R true, ...) and op in and/or/-->/U/R: two DIFFERENT temporal subformulas interacting."""
    P, Q, T, F = fm.P, fm.Q, fm.TRUE, fm.FALSE
    t1 = [('X', P), ('F', P), ('G', Q), ('U', P, Q), ('U', Q, P), ('R', P, Q), ('R', Q, P), ('X', T), ('X', F),
          ('U', F, P), ('U', P, T), ('R', P, T), ('R', T, Q), ('G', ('not', P))]
    out = []
    for x in t1:
        for y in t1:
            if x == y:
                continue
            for o in ('and', 'or', 'imp', 'U', 'R'):
                out.append((o, x, y))
    return out


def enum_shard(st, shard, nshards, payload):
    L = fm.lang('LTL')
    idx = -1
    for (n, k, stride) in payload['scopes']:
        paths = path_scope(k)
        objs = {}
        cls = [classes_of(g) for g in paths]
        for j, K in enumerate(scope_iter(n, stride, nshards)):
            # every stride-th structure of THIS scope (S(4)+ are already strided by the decoder),
            # dealt round-robin to the shards
            if n < 4:
                if j % stride:
                    continue
                j //= stride
            # work is dealt to the shards per (structure, formula) item, not per structure: scopes
            # with few structures and many (or slow) formulas would otherwise leave shards idle
            idx = j
            M = ref.Model(K)
            naming = NAMINGS[idx % len(NAMINGS)]
            how = idx % 6
            ai = (idx // 2) % len(fm.ATOM_MAPS)
            amap = fm.atom_map(ai)
            cont = 'shared' if idx % 4 == 3 else 'list'
            kripke = km.to_lib(km.rename_labels(K, amap), naming, how, cont)
            back = dict((km.name_of(naming)(i), i) for i in range(n))
            for gi, g in enumerate(paths):
                if (j * 7 + gi) % nshards != shard:
                    continue
                exp = expected(M, g, certify=(gi % 5 == idx % 5), spot=0)
                try:
                    ok_ = (gi, ai if amap else None)
                    if ok_ not in objs:
                        objs[ok_] = fm.to_lib(fm.rename_atoms(('A', g), amap), L, raw_leaves=(gi % 3 == 2), share={} if gi % 2 else None)
                    res = L.modelcheck(kripke, objs[ok_])
                    out = mc.normalise(res, back)
                except Exception as e:
                    out = ('exc', type(e).__name__, str(e)[:200])
                st.evaluations += 1
                nt = is_nontrivial(K, g, exp)
                if nt:
                    st.nontrivial += 1
                    for c in cls[gi]:
                        st.bump(c)
                    st.bump('states=%d' % n)
                if out != ('set', exp):
                    inp = {'K': K, 'g': g, 'naming': naming, 'how': how, 'form': 'raw' if gi % 3 == 2 else ('shared' if gi % 2 else 'obj'), 'atoms': ai, 'containers': cont}
                    fresh = check_ltl(inp)
                    if fresh is None:
                        st.add_extra('mismatch_only_with_reused_structure')
                        continue
                    if st.failure is None:
                        st.failure = fresh
                    return
                if nt and gi % 41 == 0:
                    st.sample({'K': K, 'g': g, 'expected': ref.mask_to_list(exp)},
                              cls='n%d-%s' % (n, ','.join(cls[gi])))


SCOPE_LEGEND = {
    '1': 'LTL path formulas with <= 1 operator (100)', '2': 'LTL path formulas with <= 2 operators (4324)',
    'tt': 'tt (90 formulas with two nested temporal operators)', 'k3': 'k3 (every 97th path formula with exactly 3 operators)',
    'rep': 'rep (360 formulas with a temporal subformula repeated under both polarities)',
    'pairs': 'pairs (910 formulas x op y joining two different one-operator temporal formulas, incl. constant operands)',
    'nary': 'nary (868 formulas with 3- and 4-ary and/or of temporal operands)',
    'ctx': 'ctx (39840 formulas: every context of <= 2 operators over {p,q,SLOT} with SLOT at least twice x every 1-operator path formula for SLOT)'}

def run(ctx):
    from hypothesis import strategies as hs
    ctx.rule = ('S(n) = every total Kripke structure with n states over {p,q}; LTL formulas A g '
                'with g a path formula of <= k operators over {p,q,true,false} (not, and, or, '
                '-->, X, F, G, U, R).  Oracle: R-STAR (product with the valuation automaton of '
                'not g, generalised Buchi); every excluded state carries a lasso certificate '
                're-checked by the independent path evaluator R-PATH (all of them in the random '
                'tier and on replay, one formula in five in the exhaustive tier), included states '
                'are spot-checked against every lasso of length <= 4 in the random tier.  '
                'Random tier: structures <= 5 states, path formulas <= 3 temporal operators, '
                'depth <= 3.  Non-trivial = g has a temporal operator and the expected set '
                'differs from the propositional evaluation of g with temporal subformulas read '
                'as false and as true.')
    if ctx.thorough:
        scopes = [(1, 2, 1), (2, 2, 1), (3, 1, 1), (4, 1, 4001), (3, 'tt', 5), (3, 2, 211), (4, 'tt', 20011),
                  (2, 'k3', 1), (3, 'k3', 97), (4, 'k3', 200003), (1, 'rep', 1), (2, 'rep', 3), (3, 'rep', 401),
                  (1, 'pairs', 1), (2, 'pairs', 4), (3, 'pairs', 1201), (1, 'nary', 1), (2, 'nary', 4), (3, 'nary', 1201),
                  (1, 'ctx', 1), (2, 'ctx/7', 3), (3, 'ctx/97', 1801)]
    else:
        scopes = [(1, 2, 1), (2, 1, 1), (2, 2, 12), (3, 1, 24), (4, 1, 60013), (3, 'tt', 211), (2, 'k3', 16),
                  (3, 'k3', 1801), (1, 'rep/2', 1), (2, 'rep/2', 24), (3, 'rep/2', 5501),
                  (1, 'pairs/4', 2), (2, 'pairs/4', 72), (3, 'pairs/4', 11003), (1, 'nary/4', 2), (2, 'nary/4', 72), (3, 'nary/4', 11003),
                  (1, 'ctx/4', 1), (2, 'ctx/97', 12)]
    ctx.scopes = core.describe_scopes(scopes, SCOPE_LEGEND)
    ctx.exhaustive = True
    ctx.assumptions = ['reference semantics vp/ref.py (R-STAR certified by R-PATH) is the trusted base',
                       'formulas are bounded to <= 3 temporal operators because the tableau under '
                       'test is exponential in the closure']
    f = core.run_sharded(ctx, enum_shard, {'scopes': scopes})
    if f is not None:
        ctx.violation(minimise(f, check_ltl, valid=fm.ltl_path, key='g'))
        return

    ctx.scopes.append('vocabulary: p spelled as each identifier / string constant of the library source (about 500 names) x 6 LTL templates x 4 structures%s'
                      % ('' if ctx.thorough else ' (every 3rd combination)'))
    f = core.run_sharded(ctx, vocab_shard, {'thin': ctx.pick(3, 1)})
    if f is not None:
        ctx.violation(f)
        return

    f = core.run_random(ctx, random_shard, 1200, 12000)
    if f is not None:
        ctx.violation(f)


def random_shard(st, shard, nshards, payload):
    from hypothesis import strategies as hs
    case = hs.fixed_dictionaries({
        'K': km.st_kripke(1, 5),
        'g': fm.st_formula('ltl_path', max_depth=3, max_temporal=3),
        'naming': hs.sampled_from(NAMINGS),
        'how': hs.integers(0, 5),
        'atoms': hs.integers(0, len(fm.ATOM_MAPS) - 1),
        'containers': hs.sampled_from(['list', 'list', 'set', 'tuple', 'shared']),
        'form': hs.sampled_from(FORMS),
    })

    def body(inp):
        g = fm.from_json(inp['g'])
        M = ref.Model(inp['K'])
        exp = expected(M, g, certify=False)
        nt = is_nontrivial(inp['K'], g, exp)
        st.random_case([inp['K'], inp['g']], nt)
        st.bump('random form=' + inp['form'])
        st.bump('random states=%d' % inp['K']['n'])
        st.bump('random temporal=%d' % fm.temporal_count(g))
        if nt:
            for c in classes_of(g):
                st.bump('random ' + c)
            st.sample(dict(inp, expected=ref.mask_to_list(exp)),
                      cls='random-%d-%d' % (inp['K']['n'], fm.temporal_count(g)))
        st.add_extra('lasso_certificates_checked', bin(M.full & ~exp).count('1'))
        return check_ltl(inp)

    f = core.hyp_run(payload['seed'] * 1000 + shard, case, body, payload['n'])
    if f is not None:
        st.failure = f
