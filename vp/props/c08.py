"""C08 - formula objects always belong to their logic; out-of-logic input is rejected."""
from .. import core, fm, km
from ..core import Failure

LANGS = ['PL', 'CTL', 'LTL', 'CTLS']
CHECKERS = ['CTL', 'LTL', 'CTLS']
K2 = {'n': 2, 'edges': [[0, 0], [0, 1], [1, 0]], 'labels': [['p'], ['q']]}


def build(t, langname, cache=None, raw=False):
    """('ok', obj) | ('TypeError', msg) | ('cannot', msg) | ('other', ExcName, msg).

    Children are built first (in the same language); a failing child fails the tree."""
    if cache is not None and t in cache:
        return cache[t]
    L = fm.lang(langname)
    k = t[0]
    try:
        if k == 'ap':
            r = ('ok', L.AtomicProposition(t[1]))
        elif k in ('true', 'false'):
            r = ('ok', L.Bool(k == 'true'))
        else:
            kids = []
            r = None
            for c in t[1:]:
                rc = build(c, langname, cache, raw)
                if rc[0] != 'ok':
                    r = rc
                    break
                kids.append(rc[1])
            if r is None:
                cls = getattr(L, fm.CLASSNAME[k], None)
                if cls is None:
                    r = ('cannot', '%s has no %s' % (langname, fm.CLASSNAME[k]))
                else:
                    if raw:
                        kids = [(x.name if type(x).__name__ == 'AtomicProposition' else x) for x in kids]
                    r = ('ok', cls(*kids))
    except TypeError as e:
        r = ('TypeError', str(e)[:120])
    except Exception as e:
        r = ('other', type(e).__name__, str(e)[:120])
    if cache is not None:
        cache[t] = r
    return r


def inspect_obj(obj, t, langname, strict=True):
    """None or a description: same tree, every node an object of the language, sort.

    strict: every node's class is defined in the language's own module (own construction,
    cast_to, parsers).  Otherwise (mixed-language construction) a node may be an object of a
    sub-language: its class must still derive from the target language's Formula class -
    class membership is what the library means by "is a formula of" (a CTL atom is a PL
    formula)."""
    try:
        back = fm.structure(obj)
    except Exception as e:
        return 'result is not a readable formula: %s' % e
    if back != t:
        return 'result has tree %r' % (back,)
    bad = fm.foreign_node(obj, langname)
    if bad:
        return bad
    if strict and langname in ('CTL', 'CTLS'):
        try:
            s = obj.is_a_state_formula()
        except Exception as e:
            return 'is_a_state_formula raised %s' % type(e).__name__
        if bool(s) != fm.ctls_state(t):
            return 'is_a_state_formula() = %s for a %s formula' % (s, 'state' if fm.ctls_state(t) else 'path')
    return None


def check_construct(inp):
    """Own-language construction: succeeds iff the tree is a formula of the language."""
    t = fm.from_json(inp['t'])
    langname = inp['lang']
    member = fm.kind(langname, t) is not None
    r = build(t, langname, None, inp.get('raw', False))
    if r[0] == 'other':
        return Failure('construct', inp, 'a formula or TypeError', 'raised %s: %s' % (r[1], r[2]))
    if (r[0] == 'ok') != member:
        return Failure('construct', inp, 'construction %s' % ('succeeds' if member else 'raises TypeError'),
                       'built %r' % (r[1],) if r[0] == 'ok' else '%s: %s' % (r[0], r[1]))
    if r[0] == 'ok':
        p = inspect_obj(r[1], t, langname)
        if p:
            return Failure('construct', inp, 'an object of %s with the same tree' % langname, p)
    return None


def check_cast(inp):
    """cast_to / mixed construction from a sibling language: result in the target logic with
    the same tree, or TypeError; never an object outside the target logic."""
    t = fm.from_json(inp['t'])
    src, dst = inp['src'], inp['dst']
    r = build(t, src)
    if r[0] != 'ok':
        raise core.HarnessError('source object cannot be built: %r' % (inp,))
    L = fm.lang(dst)
    member = fm.kind(dst, t) is not None
    outcomes = []
    try:
        outcomes.append(('cast_to', ('ok', r[1].cast_to(L))))
    except TypeError as e:
        outcomes.append(('cast_to', ('TypeError', str(e)[:100])))
    except Exception as e:
        outcomes.append(('cast_to', ('other', type(e).__name__, str(e)[:100])))
    if t[0] not in fm.LEAF:
        # mixed construction: the children are objects of src, the parent constructor is dst's
        cls = getattr(L, fm.CLASSNAME[t[0]], None)
        if cls is not None:
            kids = [build(c, src)[1] for c in t[1:]]
            try:
                outcomes.append(('mixed construction', ('ok', cls(*kids))))
            except TypeError as e:
                outcomes.append(('mixed construction', ('TypeError', str(e)[:100])))
            except Exception as e:
                outcomes.append(('mixed construction', ('other', type(e).__name__, str(e)[:100])))
    for how, o in outcomes:
        if o[0] == 'other':
            return Failure('cast', inp, 'a formula of %s or TypeError' % dst,
                           '%s raised %s: %s' % (how, o[1], o[2]))
        if o[0] == 'ok':
            if not member:
                return Failure('cast', inp, 'TypeError (not a %s formula)' % dst,
                               '%s returned %r' % (how, o[1]))
            p = inspect_obj(o[1], t, dst, strict=(how == 'cast_to'))
            if p:
                return Failure('cast', inp, 'an object of %s with the same tree' % dst, '%s: %s' % (how, p))
    # the source object is untouched
    p = inspect_obj(r[1], t, src)
    if p:
        return Failure('cast', inp, 'source unchanged', p)
    return None


def check_guard(inp):
    """modelcheck with a formula outside the checker's logic (or a path formula) -> TypeError."""
    t = fm.from_json(inp['t'])
    checker, objlang = inp['checker'], inp['objlang']
    if fm.kind(checker, t) == 'state':
        raise core.HarnessError('guard case is a state formula of the checker: %r' % (inp,))
    r = build(t, objlang)
    if r[0] != 'ok':
        raise core.HarnessError('object cannot be built: %r' % (inp,))
    kripke = km.to_lib(K2)
    try:
        with core.quiet():
            res = fm.lang(checker).modelcheck(kripke, r[1])
        return Failure('guard', inp, 'TypeError', 'returned %r' % (res,),
                       '%s.modelcheck accepted a %s' % (checker, fm.kind(checker, t) or 'non-formula'))
    except TypeError:
        pass
    except Exception as e:
        return Failure('guard', inp, 'TypeError', 'raised %s: %s' % (type(e).__name__, str(e)[:100]))
    # ... and with fairness constraints: one that no path meets (no fair state at all), one that every
    # path meets, the empty list; the formula is outside the logic whatever F says
    for Fk, Fv in (('no fair path', [set()]), ('every path fair', [set(kripke.states())]), ('empty list', [])):
        try:
            with core.quiet():
                res = fm.lang(checker).modelcheck(kripke, r[1], F=Fv)
            return Failure('guard', inp, 'TypeError', 'returned %r' % (res,),
                           '%s.modelcheck with F=%r (%s) accepted a %s' % (checker, Fv, Fk, fm.kind(checker, t) or 'non-formula'))
        except TypeError:
            pass
        except Exception as e:
            return Failure('guard', inp, 'TypeError', 'raised %s: %s' % (type(e).__name__, str(e)[:100]), 'with F=%r' % (Fv,))
    # the same formula as TEXT (the documented modelcheck(K, 'text') usage), with the default parser
    # and with the caller's own: text the checker's grammar does not read at all is refused by the
    # parser (ParserError, C10); text it reads as something that is not a state formula must be
    # refused with TypeError; what may never happen is an ANSWER
    if fm.kind('CTLS', t) is not None:
        from pyModelChecking.parser import ParserError
        L = fm.lang(checker)
        text = fm.to_text(t)
        routes = [('parser=%s.Parser()' % checker, {'parser': _guard_parser(checker)})]
        if (len(text) * 7 + fm.size(t)) % 11 == 0:
            # building the default parser costs ~20 ms per call: one class in eleven
            routes.insert(0, ('default parser', {}))
        for how, kw in routes:
            try:
                with core.quiet():
                    res = L.modelcheck(kripke, text, **kw)
                return Failure('guard', inp, 'TypeError (or ParserError)', 'returned %r' % (res,),
                               '%s.modelcheck(K, %r) with the %s accepted a %s given as text' % (
                                   checker, text, how, fm.kind(checker, t) or 'non-formula'))
            except (TypeError, ParserError):
                pass
            except Exception as e:
                return Failure('guard', inp, 'TypeError (or ParserError)', 'raised %s: %s' % (type(e).__name__, str(e)[:100]),
                               'text %r, %s' % (text, how))
    return None


_GUARD_PARSERS = {}


def _guard_parser(checker):
    if checker not in _GUARD_PARSERS:
        _GUARD_PARSERS[checker] = fm.lang(checker).Parser()
    return _GUARD_PARSERS[checker]


def check_nonkripke(inp):
    from pyModelChecking.graph import DiGraph
    checker = inp['checker']
    L = fm.lang(checker)
    f = {'CTL': ('A', ('G', fm.P)), 'LTL': ('A', ('G', fm.P)), 'CTLS': ('A', ('G', fm.P))}[checker]
    bads = {'None': None, 'str': 'K', 'int': 42, 'dict': {0: [0]}, 'list': [(0, 0)],
            'DiGraph': DiGraph(V=[0], E=[(0, 0)]), 'class': object}
    bad = bads[inp['what']]
    for form, kw in ((fm.to_lib(f, L), {}), (fm.to_text(f), {}), (fm.to_lib(f, L), {'F': [set([0])]}),
                     (fm.to_text(f), {'F': []}), (fm.to_lib(f, L), {'parser': _guard_parser(checker)})):
        try:
            with core.quiet():
                res = L.modelcheck(bad, form, **kw)
            return Failure('nonkripke', inp, 'TypeError', 'returned %r' % (res,))
        except TypeError:
            pass
        except Exception as e:
            return Failure('nonkripke', inp, 'TypeError', 'raised %s: %s' % (type(e).__name__, e))
    return None


def check_derived(inp):
    """Objects obtained by other routes than the constructors still belong to their logic:
    operator overloading (f & g, f | g, ~f, True & f), clone(), a cast of a cast, a cast of a
    parser's output, and re-use of one operand object in two parents."""
    t = fm.from_json(inp['t'])
    langname = inp['lang']
    L = fm.lang(langname)
    member = fm.kind(langname, t) is not None
    k = t[0]

    def judge(what, fn, tree, lang=langname, strict=True):
        mem = fm.kind(lang, tree) is not None
        try:
            o = fn()
        except TypeError:
            return None if not mem or what.startswith('cast') else Failure(
                'derived', inp, 'a %s object' % lang, 'TypeError', what)
        except Exception as e:
            return Failure('derived', inp, 'a %s object or TypeError' % lang,
                           'raised %s: %s' % (type(e).__name__, str(e)[:100]), what)
        if not mem:
            return Failure('derived', inp, 'TypeError (not a %s formula)' % lang, 'returned %r' % (o,), what)
        p = inspect_obj(o, tree, lang, strict=strict)
        if p:
            return Failure('derived', inp, 'an object of %s with tree %r' % (lang, tree), p, what)
        return None

    # operator overloading on the children (built in the same language)
    if k in ('and', 'or') and len(t) == 3 or k == 'not':
        kids = [build(c, langname) for c in t[1:]]
        if all(r[0] == 'ok' for r in kids):
            objs = [r[1] for r in kids]
            if k == 'not':
                f = judge('~f', lambda: ~objs[0], t)
            elif k == 'and':
                f = judge('f & g', lambda: objs[0] & objs[1], t)
                if f is None and t[1][0] in ('true', 'false'):
                    f = judge('bool & g', lambda: (t[1][0] == 'true') & objs[1], t)
                if f is None and t[2][0] in ('true', 'false'):
                    f = judge('f & bool', lambda: objs[0] & (t[2][0] == 'true'), t)
            else:
                f = judge('f | g', lambda: objs[0] | objs[1], t)
                if f is None and t[1][0] in ('true', 'false'):
                    f = judge('bool | g', lambda: (t[1][0] == 'true') | objs[1], t)
            if f is not None:
                return f
    r = build(t, langname)
    if r[0] != 'ok':
        return None
    obj = r[1]
    f = judge('clone()', lambda: obj.clone(), t)
    if f is not None:
        return f
    # the same operand object under two parents, the second in another language
    for other in LANGS:
        if other == langname:
            continue
        Lo = fm.lang(other)
        cls = getattr(Lo, 'Not', None)
        f = judge('%s.Not(<%s object>)' % (other, langname), lambda: cls(obj), ('not', t), other, strict=False)
        if f is not None:
            return f
        # a cast of a cast
        f = judge('cast_to(%s) of the object' % other, lambda: obj.cast_to(Lo), t, other)
        if f is not None:
            return f
        if fm.kind(other, t) is not None:
            mid = obj.cast_to(Lo)
            f = judge('cast back to %s of cast_to(%s)' % (langname, other), lambda: mid.cast_to(L), t, langname)
            if f is not None:
                return f
    if fm.structure(obj) != t:
        return Failure('derived', inp, 'source object unchanged', list(fm.structure(obj)))
    # a parser's output cast into the other languages
    if member and langname != 'CTL' and all(fm.is_identifier(a) and a not in fm.RESERVED for a in fm.atoms(t)):
        try:
            from .c09 import parser as cached_parser
            parsed = cached_parser(langname)(fm.to_text(t))
        except Exception:
            parsed = None
        if parsed is not None and fm.structure(parsed) == t:
            for other in LANGS:
                if other != langname:
                    f = judge('cast_to(%s) of the %s parser output' % (other, langname),
                              lambda: parsed.cast_to(fm.lang(other)), t, other)
                    if f is not None:
                        return f
    return None


CHECKS = {'construct': check_construct, 'cast': check_cast, 'guard': check_guard,
          'nonkripke': check_nonkripke, 'derived': check_derived}


def replay(ctx, rec):
    return CHECKS[rec['check']](rec['input'])


def is_nontrivial(t):
    if not (fm.ops(t) & (set(fm.TEMP) | set(fm.QUANT))):
        return False
    mem = [fm.kind(l, t) is not None for l in LANGS]
    return any(mem) and not all(mem)


def hidden_trees():
    """Depth 3-5 trees in which a subformula sits inside a Boolean context that a semantic
    shortcut could simplify away (false and x, true or x, false --> x, x and not x, ...), under
    the wrappers each checker accepts.  If the subformula is outside the checker's logic the
    whole formula is, whatever the context evaluates to: modelcheck must still raise TypeError."""
    P, Q, T, F = fm.P, fm.Q, fm.TRUE, fm.FALSE
    cores = [('E', ('X', P)), ('E', P), ('A', P), ('A', ('X', P)), ('X', P), ('G', P), ('U', P, Q),
             ('A', ('F', ('G', P))), ('E', ('G', ('F', P))), ('A', ('U', ('X', P), Q)), ('not', ('X', P)),
             ('A', ('and', ('X', P), Q))]
    ctxs = [lambda x: ('and', F, x), lambda x: ('and', x, F), lambda x: ('and', T, x, F), lambda x: ('or', T, x),
            lambda x: ('or', x, T), lambda x: ('imp', F, x), lambda x: ('imp', x, T), lambda x: ('and', x, ('not', x)),
            lambda x: ('or', x, ('not', x)), lambda x: ('not', ('and', F, x)), lambda x: ('and', Q, x),
            lambda x: ('not', ('not', x)), lambda x: ('imp', x, x), lambda x: ('and', F, ('or', T, x))]
    wraps = [lambda x: x, lambda x: ('A', x), lambda x: ('A', ('X', x)), lambda x: ('A', ('G', x)),
             lambda x: ('A', ('U', P, x)), lambda x: ('E', ('F', x)), lambda x: ('not', ('A', ('F', x))),
             lambda x: ('A', ('F', ('and', Q, x))), lambda x: ('and', ('A', ('G', P)), x)]
    out = []
    for c in cores:
        for h in ctxs:
            for w in wraps:
                out.append(w(h(c)))
    return out


def trees_for(payload):
    if payload['scope'] == 'd2':
        return fm.union_trees(2, (fm.TRUE, fm.P))
    if payload['scope'] == 'hidden':
        return hidden_trees()
    return fm.union_trees(3, (fm.P,))


def enum_shard(st, shard, nshards, payload):
    trees = trees_for(payload)
    deep = payload['scope'] != 'd2'
    caches = dict((l, {}) for l in LANGS)
    raw_caches = dict((l, {}) for l in LANGS)
    gstride = payload.get('guard_stride', 1)
    for idx, t in enumerate(trees):
        if idx % nshards != shard:
            continue
        nt = is_nontrivial(t)
        kinds = dict((l, fm.kind(l, t)) for l in LANGS)
        built = {}
        for l in LANGS:
            st.evaluations += 1
            member = kinds[l] is not None
            r = build(t, l, caches[l])
            if deep and len(caches[l]) > 200000:
                caches[l].clear()
            bad = r[0] == 'other' or (r[0] == 'ok') != member
            if not bad and r[0] == 'ok':
                bad = inspect_obj(r[1], t, l) is not None
                built[l] = r[1]
            if not bad and idx % 5 == 0:
                r2 = build(t, l, raw_caches[l], raw=True)
                bad = r2[0] == 'other' or (r2[0] == 'ok') != member or \
                    (r2[0] == 'ok' and inspect_obj(r2[1], t, l) is not None)
            if bad:
                f = check_construct({'t': t, 'lang': l}) or check_construct({'t': t, 'lang': l, 'raw': True}) or \
                    Failure('construct', {'t': t, 'lang': l}, 'membership respected', 'only with cached children')
                if st.failure is None:
                    st.failure = f
                return
            st.bump('construct %s: %s' % (l, 'member' if member else 'rejected'))
        if nt:
            st.nontrivial += 1
            if idx % 401 == 0:
                st.sample({'t': t, 'kinds': kinds}, cls='%s' % sorted(k for k in kinds if kinds[k]))
        if not deep and idx % payload.get('derived_stride', 1) == 0:
            for l in built:
                st.evaluations += 1
                st.bump('derived objects (overloading, clone, cast chains, parser output)')
                f = check_derived({'t': t, 'lang': l})
                if f is not None:
                    if st.failure is None:
                        st.failure = f
                    return
        # casts between every ordered pair of languages where the source exists
        if not deep or idx % 8 == 0:
            for src in built:
                for dst in LANGS:
                    if dst == src:
                        continue
                    st.evaluations += 1
                    f = check_cast({'t': t, 'src': src, 'dst': dst})
                    if f is not None:
                        if st.failure is None:
                            st.failure = f
                        return
                    st.bump('cast %s' % ('into a language the tree belongs to'
                                         if kinds[dst] else 'that must be refused'))
        # modelcheck guards
        if idx % gstride == 0:
            for checker in CHECKERS:
                if kinds[checker] == 'state':
                    continue
                for objlang in built:
                    st.evaluations += 1
                    f = check_guard({'t': t, 'checker': checker, 'objlang': objlang})
                    if f is not None:
                        if st.failure is None:
                            st.failure = f
                        return
                    st.bump('modelcheck guard %s' % checker)


def run(ctx):
    from hypothesis import strategies as hs
    ctx.rule = ('all operator trees of depth <= 2 over leaves {true, p} and the 11 operators of '
                'the union alphabet (5986 trees; binary and/or), thorough: depth 3 over the single '
                'leaf p (3.15 M trees), x the four languages.  Oracles: hand-written membership '
                'recognisers of PL/CTL/LTL/CTL* from logics.rst: own-language construction succeeds '
                'iff member, else TypeError (a missing constructor counts as cannot-be-built); a '
                'built object has the same tree, every node class in the language module, and for '
                'CTL/CTL* is_a_state_formula() matches the sort; cast_to and mixed-language '
                'construction for every ordered language pair return an object of the target logic '
                'with the same tree or raise TypeError (never an object outside the target); '
                'modelcheck of every checker on every constructed object that is not a state '
                'formula of that checker raises TypeError; objects obtained through operator overloading (&, |, ~, bool '
                'operands), clone(), a cast of a cast, a cast of a parser\'s output or as operand of a sibling '
                'language\'s constructor obey the same membership rule; non-Kripke first arguments raise '
                'TypeError.  Non-trivial = tree with a quantifier or temporal operator that belongs '
                'to some but not all of the four languages.')
    st = ctx.stats
    for checker in CHECKERS:
        for what in ('None', 'str', 'int', 'dict', 'list', 'DiGraph', 'class'):
            st.evaluations += 1
            f = check_nonkripke({'checker': checker, 'what': what})
            if f is not None:
                ctx.violation(f)
                return
    ctx.scopes = ['all 5986 trees of depth <= 2 over {true,p} x 4 languages x {construct, cast, mixed, modelcheck guard}']
    ctx.exhaustive = True
    f = core.run_sharded(ctx, enum_shard, {'scope': 'd2', 'derived_stride': ctx.pick(3, 1)})
    if f is not None:
        ctx.violation(f)
        return
    ctx.scopes.append('1512 trees with a subformula hidden in a simplifiable Boolean context under each checker\'s wrappers '
                      '(false and x, true or x, x and not x, ...): construct / cast / modelcheck guards')
    f = core.run_sharded(ctx, enum_shard, {'scope': 'hidden', 'derived_stride': 10 ** 9})
    if f is not None:
        ctx.violation(f)
        return
    if ctx.thorough:
        ctx.scopes.append('all 3.15 M trees of depth <= 3 over {p}: construct in 4 languages; casts on '
                          'every 8th, modelcheck guards on every 64th')
        f = core.run_sharded(ctx, enum_shard, {'scope': 'd3', 'guard_stride': 64})
        if f is not None:
            ctx.violation(f)
            return

    f = core.run_random(ctx, random_shard, 6000, 40000)
    if f is not None:
        ctx.violation(f)


def random_shard(st, shard, nshards, payload):
    from hypothesis import strategies as hs
    @hs.composite
    def anytree(draw, d):
        if d <= 0:
            return draw(hs.sampled_from([fm.P, fm.Q, fm.TRUE, fm.FALSE]))
        o = draw(hs.sampled_from(['leaf', 'not', 'X', 'F', 'G', 'A', 'E', 'and', 'or', 'imp', 'U', 'R',
                                  'and', 'or']))
        if o == 'leaf':
            return draw(hs.sampled_from([fm.P, fm.Q, fm.TRUE, fm.FALSE]))
        if o in ('not', 'X', 'F', 'G', 'A', 'E'):
            return (o, draw(anytree(d - 1)))
        if o in ('and', 'or'):
            n = draw(hs.sampled_from([2, 2, 3]))
            return (o,) + tuple(draw(anytree(d - 1)) for _ in range(n))
        return (o, draw(anytree(d - 1)), draw(anytree(d - 1)))

    def body(t):
        t = fm.from_json(t)
        st.random_case(t, is_nontrivial(t))
        st.bump('random depth %d' % fm.depth(t))
        built = []
        for l in LANGS:
            f = check_construct({'t': t, 'lang': l, 'raw': len(t) % 2 == 0})
            if f is not None:
                return f
            if fm.kind(l, t) is not None:
                built.append(l)
        for src in built:
            for dst in LANGS:
                if dst != src:
                    f = check_cast({'t': t, 'src': src, 'dst': dst})
                    if f is not None:
                        return f
            if fm.size(t) <= 12:
                f = check_derived({'t': t, 'lang': src})
                if f is not None:
                    return f
        if fm.temporal_count(t) <= 3:
            for checker in CHECKERS:
                if fm.kind(checker, t) != 'state':
                    for objlang in built:
                        f = check_guard({'t': t, 'checker': checker, 'objlang': objlang})
                        if f is not None:
                            return f
        return None

    f = core.hyp_run(payload['seed'] * 1000 + shard, anytree(5), body, payload['n'])
    if f is not None:
        st.failure = f
