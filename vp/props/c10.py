"""C10 - parsers reject text outside their language with a positioned ParserError."""
from .. import core, fm, syn
from ..core import Failure
from .c09 import parser

LOGICS = ['PL', 'CTLS', 'CTL', 'LTL']
VOCAB = ['A', 'E', 'X', 'F', 'G', 'U', 'R', 'not', 'and', 'or', '-->', '~', '&', '|', 'true',
         'false', 'p', 'q', 'r', '(', ')', '"a b"', 'Ap', 'andy', 'Uq', 'notp', 'EX', 'AG',
         '"x\\"y"', '""', '_1', '"and"', '"\\\\"', '"A G p"', '"a\\\\"', '"(p)"', '" x "', '"x "', '" "']
JUNK = ['1', '$', '"', '\\', '-', '>', '->', '=>', '[', ']', 'é', '1p', '!', '.', ',', '\n', '\t',
        '0', "'q'", '<->', '^', '@', '#', ';', '{', '}', '\x00'] + \
    ['\u212a', '\u017f', '\u0130', '\u0131', 'p\u212a', '\u017fafe', '\u00df', '\u03b1', '\uff21', '\u0663', 'x\u00b2', '\u00aa',
     '\u01c5', 'a\u0301', '\u2160', '\u00b5']

# the exclusions the documentation spells out: (logic, text)
DOCUMENTED_EXCLUSIONS = [
    ('CTL', 'A F G q'), ('CTL', 'A (F G q)'), ('CTL', 'A G F p'), ('CTL', 'E (p and X q)'),
    ('CTL', 'A p'), ('CTL', 'E (X p or X q)'), ('CTL', 'A X X p'), ('CTL', 'E ((p U q) U r)'),
    ('CTL', 'not X p'), ('CTL', 'A not X p'),
    ('LTL', 'E X p'), ('LTL', 'E p'), ('LTL', 'A E X p'), ('LTL', 'A (p U E q)'), ('LTL', 'A A p'),
    ('LTL', 'not A p'), ('LTL', 'A p and A q'), ('LTL', 'A X A p'), ('LTL', 'p and A q'),
    ('PL', 'X p'), ('PL', 'p U q'), ('PL', 'A p'), ('PL', 'E F p'), ('PL', 'G (p and q)'),
    ('PL', 'p R q'), ('PL', 'not F p'),
    ('PL', 'p and q or r'), ('CTLS', 'p and q or r'), ('CTL', 'p and q or r'), ('LTL', 'p and q or r'),
    ('PL', 'p --> q --> r'), ('CTLS', 'p --> q --> r'), ('CTL', 'p --> q --> r'),
    ('LTL', 'p --> q --> r'), ('CTLS', 'p U q U r'), ('LTL', 'p U q R r'), ('CTLS', 'p or q --> r'),
    ('CTLS', 'p and'), ('CTLS', '(p'), ('CTLS', 'p)'), ('CTLS', ''), ('LTL', ''), ('CTL', ''),
    ('PL', ''), ('CTLS', 'p q'), ('PL', '()'), ('CTLS', 'p X'),
]


def check_parse(inp):
    from pyModelChecking import parser as P
    logic = inp['logic']
    text = inp['text']
    must_reject = inp.get('must_reject', False)
    try:
        f = parser(logic)(text)
        outcome = 'ok'
    except (P.UnexpectedToken, P.UnexpectedCharacters) as e:
        outcome = 'rejected'
        if type(e) not in (P.UnexpectedToken, P.UnexpectedCharacters):
            return Failure('parse', inp, 'UnexpectedToken/UnexpectedCharacters', type(e).__name__)
        pos = getattr(e, 'pos', None)
        if not isinstance(pos, int) or isinstance(pos, bool) or not (0 <= pos <= len(text)):
            return Failure('parse', inp, 'integer position within [0, %d]' % len(text), repr(pos),
                           'position of the %s' % type(e).__name__)
        if not isinstance(e, P.ParserError):
            return Failure('parse', inp, 'a ParserError', type(e).__name__)
    except Exception as e:
        return Failure('parse', inp, 'a formula or UnexpectedToken/UnexpectedCharacters',
                       'raised %s: %s' % (type(e).__name__, str(e)[:120]))
    try:
        trees = syn.parse_all(logic, text)
    except (syn.TooMany, RecursionError):
        trees = None                    # too many tokenisations / too deep for the recogniser
    if must_reject and trees:
        raise core.HarnessError('recogniser accepts a documented exclusion: %r' % (inp,))
    if outcome == 'rejected':
        return None
    # accepted: it must be a formula of exactly that logic, with a tree the grammar admits
    try:
        t = fm.structure(f)
        fm.all_nodes(f)
        fm.kind(logic, t)
    except RecursionError:
        return None                     # nesting too deep for the (recursive) harness walkers
    except Exception as e:
        return Failure('parse', inp, 'a formula', 'returned %r (%s)' % (f, e))
    bad = fm.foreign_node(f, logic)
    if bad:
        return Failure('parse', inp, 'a formula of %s' % logic, bad)
    if fm.kind(logic, t) is None:
        return Failure('parse', inp, 'a formula of %s' % logic, list(t),
                       'the returned tree is not a %s formula as documented' % logic)
    if trees is not None and t not in trees:
        return Failure('parse', inp, sorted(map(repr, trees))[:5] or 'rejection', repr(t),
                       'accepted a string the documented grammar excludes' if not trees
                       else 'returned a tree the documented grammar does not give to this string')
    return None


CHECKS = {'parse': check_parse}


def replay(ctx, rec):
    return check_parse(rec['input'])


# ---------------------------------------------------------------------------------------
# valid strings as token lists

def tokens_of(t, logic, sym=False, extra=False):
    """A token list that is a valid string of `logic` for the formula t (fully parenthesised
    binary operators; unary operators prefix)."""
    W = {'not': '~' if sym else 'not', 'and': '&' if sym else 'and', 'or': '|' if sym else 'or',
         'imp': '-->'}

    def word(o):
        return W.get(o, o)

    def rec(t):
        k = t[0]
        if k == 'ap':
            a = fm.atom_text(t[1])
            return ['(', a, ')'] if extra else [a]
        if k in ('true', 'false'):
            return [k]
        if len(t) == 2:
            return [word(k)] + rec(t[1])
        out = ['(']
        for i, c in enumerate(t[1:]):
            if i:
                out.append(word(k))
            out += rec(c)
        return out + [')']
    return rec(t)


def join(tokens, tight=False):
    if tight == 2:
        # multi-line layout: newlines, tabs and runs of blanks between tokens
        seps = ['\n', '\t', '  ', ' \n\t ', ' ', '\r\n', '\f']
        out = ''
        for i, tk in enumerate(tokens):
            out += tk + seps[(i * 5 + len(tk)) % len(seps)]
        return ('\n' if len(tokens) % 2 else '') + out
    if not tight:
        return ' '.join(tokens)
    out = ''
    for tk in tokens:
        if out and (out[-1].isalnum() or out[-1] in '_"') and (tk[0].isalnum() or tk[0] in '_"'):
            out += ' '
        out += tk
    return out


def mutate(tokens, kind, pos, tok):
    toks = list(tokens)
    if not toks:
        return [tok]
    pos %= len(toks)
    if kind == 'delete':
        del toks[pos]
    elif kind == 'insert':
        toks.insert(pos, tok)
    elif kind == 'swap':
        j = (pos + 1) % len(toks)
        toks[pos], toks[j] = toks[j], toks[pos]
    elif kind == 'replace':
        toks[pos] = tok
    elif kind == 'append':
        toks.append(tok)
    elif kind == 'dup':
        toks.insert(pos, toks[pos])
    return toks


def run(ctx):
    from hypothesis import strategies as hs
    ctx.rule = ('(1) valid strings of every logic rendered as token lists (word or symbol '
                'operators, extra parentheses, tight or spaced) and fed to ALL FOUR parsers '
                '(cross-feeding); (2) one token-level mutation (delete / insert / swap / replace / '
                'append / duplicate, with vocabulary and junk tokens) of such strings, to all four '
                'parsers; (3) random token soup incl. junk characters; (4) the exclusions the '
                'documentation spells out, which must be rejected.  Oracle: independent tokenizer '
                '+ backtracking recursive-descent recognisers of the four documented grammars over '
                'every admissible tokenisation: an accepted string must yield a formula of that '
                'logic (node classes, membership recogniser) whose tree the recogniser also gives '
                'to the string; a rejection must be pyModelChecking.parser.UnexpectedToken / '
                'UnexpectedCharacters with an integer 0 <= pos <= len(text); anything else is a '
                'violation.  Non-trivial = the string is within one token edit of a valid string '
                'of some logic (classes 1, 2, 4); distinct by (logic, text).')
    ctx.assumptions = ['the grammar texts of the Parser classes are the documented grammars; '
                       'lexing is read permissively (any split of an identifier run into keyword '
                       'prefixes + remainder; keyword texts also admitted as atoms)',
                       'recogniser-accepts/parser-rejects is reported, not a violation (C09 covers completeness)']
    st = ctx.stats

    for logic, text in DOCUMENTED_EXCLUSIONS:
        inp = {'logic': logic, 'text': text, 'must_reject': True}
        st.random_case(inp, True)
        st.bump('documented exclusions')
        f = check_parse(inp)
        if f is None:
            # must actually have been rejected
            try:
                parser(logic)(text)
                f = Failure('parse', inp, 'rejection (documented exclusion)', 'accepted')
            except Exception:
                pass
        if f is not None:
            ctx.violation(f)
            return
    st.sample({'logic': 'CTL', 'text': 'A F G q', 'must_reject': True})
    # long and deeply nested inputs, multi-line errors, quoted-atom corners (explicit cases)
    deep = []
    for n in (60, 400, 1500):
        deep += ['(' * n + 'p' + ')' * n, 'not ' * n + 'p', '(' * n + 'p' + ')' * (n - 1), '(' * (n - 1) + 'p' + ')' * n,
                 ' and '.join(['p'] * n), '(' + ' or '.join(['q'] * n) + ') and', 'p\n' * n, '~' * n + 'q' + '\n$']
    deep += ['p and\n\tq $', 'p\n\n and', '\n\n', '\t', 'p and "a\nb"', '"a\\"', '""', '"" and "\\\\"', '"', '"p', 'p"',
             '\np\n', 'A\nG\np', 'A G p\n)', 'p and q\n\n\n or r', '"a" "b"', '("a")', 'not"a"', '"a"and"b"']
    deep += ['\u00e9 p and', 'p and \u00e9', '\u00e9\u00e9\u00e9 (p', '"\u00e9" and )', '\x0c', '\x0b p', 'p \x0b', '\u00a0p', 'p\u200b',
             'p \u2028 and q', '\ufeffp', 'a' * 5000, 'a' * 5000 + ' and', '"' + 'a' * 5000 + '"', '"' + 'b' * 300 + '" )',
             '\u00e9' * 300 + ' and', 'p and ' + '\u4e2d' * 50, '\ud800', 'p \udcff', 'A G \U0001F600', 'p\x00q', '\x7f',
             'p and q ' * 300 + '$', ('(p or q) and ' * 200) + 'p']
    # ORDER matters here (one parser object per logic reads them one after the other): texts that differ only in
    # the whitespace INSIDE a quoted atom, the plain one first (whitespace is part of the atom's name there, and a
    # raw line break inside quotes is outside the language)
    deep += ['"a b" and q', '"a\nb" and q', '"a  b" and q', '"a\tb" and q', '"a b"  and\tq', '"a b" and q', 'p and "x  y"', 'p and "x y"',
             'p and "x\ny"', 'A G ("in  use" --> A F "in use")' , 'A G ("in use" --> A F "in  use")', 'not "a\rb"', 'not "a b"', 'not "a\rb"']
    for text in deep:
        for logic in LOGICS:
            inp = {'logic': logic, 'text': text}
            st.random_case(inp, True)
            st.bump('explicit long / multi-line / quoting cases')
            f = check_parse(inp)
            if f is not None:
                ctx.violation(f)
                return

    f = core.run_random(ctx, random_shard, 6000, 60000)
    if f is not None:
        ctx.violation(f)
        return
    fuzz_stage(ctx)


def random_shard(st, shard, nshards, payload):
    from hypothesis import strategies as hs
    kinds = {'PL': 'pl', 'LTL': 'ltl', 'CTLS': 'ctls', 'CTL': 'ctl'}
    atoms = ('p', 'q', 'Ap', 'a b', 'andy')

    @hs.composite
    def valid(draw):
        src = draw(hs.sampled_from(LOGICS))
        if src == 'PL':
            t = draw(fm.st_formula('pl', atoms, max_depth=3))
        elif src == 'CTL':
            if draw(hs.integers(0, 4)) == 0:
                o = draw(hs.sampled_from(['X', 'F', 'G', 'U', 'R']))
                sub = fm.st_formula('ctl', atoms, max_depth=2)
                t = (o, draw(sub), draw(sub)) if o in 'UR' else (o, draw(sub))
            else:
                t = draw(fm.st_formula('ctl', atoms, max_depth=3))
        elif src == 'LTL':
            g = draw(fm.st_formula('ltl_path', atoms, max_depth=3, max_temporal=4))
            t = ('A', g) if draw(hs.booleans()) else g
        else:
            t = draw(fm.st_formula(draw(hs.sampled_from(['ctls_state', 'ctls_path'])), atoms,
                                   max_depth=3, max_temporal=4))
        toks = tokens_of(t, src, sym=draw(hs.booleans()), extra=draw(hs.integers(0, 5)) == 0)
        return src, t, toks

    @hs.composite
    def cases(draw):
        cls = draw(hs.sampled_from(['valid', 'mutated', 'mutated', 'mutated', 'soup']))
        tight = draw(hs.sampled_from([False, True, 2]))
        if cls == 'soup':
            n = draw(hs.integers(0, 8))
            toks = [draw(hs.sampled_from(VOCAB + JUNK)) for _ in range(n)]
            return {'cls': cls, 'src': None, 'text': join(toks, tight)}
        src, t, toks = draw(valid())
        if cls == 'mutated':
            kind = draw(hs.sampled_from(['delete', 'insert', 'swap', 'replace', 'append', 'dup']))
            tok = draw(hs.sampled_from(VOCAB + VOCAB + JUNK))
            toks = mutate(toks, kind, draw(hs.integers(0, 40)), tok)
        return {'cls': cls, 'src': src, 'text': join(toks, tight)}

    def body(c):
        for logic in LOGICS:
            inp = {'logic': logic, 'text': c['text']}
            st.random_case(inp, c['cls'] != 'soup')
            f = check_parse(inp)
            if f is not None:
                return f
            # classification (after the verdict): accepted / rejected / recogniser-only
            try:
                parser(logic)(c['text'])
                acc = True
            except Exception:
                acc = False
            st.bump('%s: %s by %s' % (c['cls'], 'accepted' if acc else 'rejected', logic))
            if c['cls'] == 'valid' and c['src'] == logic and not acc:
                st.bump('valid string of its own logic rejected (reported, C09 decides)')
            if not acc:
                try:
                    if syn.parse_all(logic, c['text']):
                        st.bump('recogniser accepts, parser rejects (reported only)')
                except syn.TooMany:
                    st.bump('too many tokenisations: tree not compared')
            if c['cls'] != 'soup':
                st.sample(dict(inp, cls=c['cls'], accepted=acc), cls='%s-%s-%s' % (c['cls'], logic, acc))
        return None

    f = core.hyp_run(payload['seed'] * 1000 + shard, cases(), body, payload['n'])
    if f is not None:
        st.failure = f


def fuzz_stage(ctx):
    """Optional coverage-guided stage (atheris), same oracle inside the target."""
    import os
    import subprocess
    import sys
    try:
        import atheris  # noqa: F401
    except Exception:
        ctx.notes['atheris'] = 'not importable: coverage-guided stage skipped'
        return
    target = os.path.join(core.VERIF, 'vp', 'fuzz_c10.py')
    runs = ctx.pick(5000, 150000)
    total = 0
    for mode in ('bytes', 'tokens'):
        env = dict(os.environ, PYTHONPATH=os.pathsep.join([core.VERIF, os.path.join(core.VERIF, '.deps')]),
                   VERIF_REPO=core.REPO)
        p = subprocess.run([sys.executable, target, mode, '-runs=%d' % runs, '-seed=%d' % (ctx.seed or 1),
                            '-max_len=48', '-timeout=20'], env=env, stdout=subprocess.PIPE,
                           stderr=subprocess.STDOUT, text=True, cwd=core.VERIF, timeout=1500)
        out = p.stdout
        found = [l for l in out.splitlines() if l.startswith('C10-FAILURE ')]
        if found:
            import json
            inp = json.loads(found[0][len('C10-FAILURE '):])
            f = check_parse(inp)
            if f is not None:
                ctx.violation(f)
                return
            ctx.notes['atheris_unreproduced'] = found[0][:300]
        done = [l for l in out.splitlines() if 'Done ' in l and ' runs' in l]
        ctx.notes['atheris_' + mode] = done[-1].strip() if done else out.strip()[-200:]
        total += runs
    ctx.stats.add_extra('atheris_executions', total)
