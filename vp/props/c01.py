"""C01 - CTL model checking returns exactly the satisfying states (DESIGN 4, C01)."""
from .. import core, fm, km, mc, ref
from ..core import Failure

PAIRS = [q + o for q in 'AE' for o in 'XFGUR']
NAMINGS = ['int', 'str', 'revint', 'tuple', 'mixed', 'zigzag', 'numeq', 'fsets']
FORMS = ['obj', 'text', 'str', 'ctls', 'shared', 'raw']


def pairs_in(f, acc=None):
    acc = set() if acc is None else acc
    if f[0] in fm.QUANT and f[1][0] in fm.TEMP:
        acc.add(f[0] + f[1][0])
    for c in fm.children(f):
        pairs_in(c, acc)
    return acc


def call(K, f, naming, how, form, kripke=None, atoms=None, containers='list'):
    if form == 'ctls':
        return mc.call('CTL', K, f, naming, how, form='obj', objlang='CTLS', kripke=kripke, atoms=atoms, containers=containers)
    if form == 'str':
        # CTL objects print in a native notation ('AX p') that the CTL parser does not read
        # and that no property claims to round-trip; the CTL* printed form is the documented
        # text form (C09), so 'str' means str() of the CTL* object
        return mc.call('CTL', K, f, naming, how, form='str', objlang='CTLS', kripke=kripke, atoms=atoms, containers=containers)
    return mc.call('CTL', K, f, naming, how, form=form, kripke=kripke, atoms=atoms, containers=containers)


def check_ctl(inp):
    K = inp['K']
    f = fm.from_json(inp['f'])
    M = ref.Model(K)
    exp = ref.ctl_eval(M, f)
    if inp.get('cross', True):
        exp2 = ref.star_eval(M, f)
        if exp2 != exp:
            raise core.HarnessError('R-CTL and R-STAR disagree on %r' % (inp,))
    out = call(K, f, inp.get('naming', 'int'), inp.get('how', 0), inp.get('form', 'obj'), atoms=inp.get('atoms'),
               containers=inp.get('containers', 'list'))
    return compare(inp, exp, out)


def compare(inp, exp, out):
    if out == ('set', exp):
        return None
    note = ''
    if out[0] == 'set':
        missing = exp & ~out[1]
        extra = out[1] & ~exp
        note = 'missing=%s extra=%s' % (ref.mask_to_list(missing), ref.mask_to_list(extra))
    return Failure('ctl', inp, mc.show_mask(exp), mc.show(out), note)


def deep_ctl(shape, k):
    """Formulas nested k deep, as a program would build them (bounded response, guard chains)."""
    P, Q = fm.P, fm.Q
    f = P
    for i in range(k):
        if shape == 'AX':
            f = ('A', ('X', f))
        elif shape == 'EU-right':
            f = ('E', ('U', Q, f))
        elif shape == 'AU-left':
            f = ('A', ('U', f, Q))
        elif shape == 'or-EX':
            f = ('or', Q, ('E', ('X', f)))
        elif shape == 'and-AX':
            f = ('and', ('not', Q), ('A', ('X', f)))
        elif shape == 'not':
            f = ('not', f)
        elif shape == 'mixed':
            f = [('E', ('X', f)), ('not', f), ('A', ('F', f)), ('E', ('G', f)), ('imp', Q, f), ('E', ('R', f, Q))][i % 6]
        elif shape == 'imp-right':
            f = ('imp', Q if i % 2 else P, f)
        elif shape == 'and-left':
            f = ('and', f, Q if i % 2 else ('E', ('X', P)))
        else:
            raise core.HarnessError('unknown shape %r' % (shape,))
    return f


DEEP_SHAPES = ['AX', 'EU-right', 'AU-left', 'or-EX', 'and-AX', 'not', 'mixed', 'imp-right', 'and-left']


def check_deep(inp):
    """CTL.modelcheck on a formula nested inp['k'] deep = the reference.  A RecursionError of the checker
    (the interpreter's limit; the pinned tree hits it from about 140 levels) is not a wrong answer."""
    K = inp['K']
    f = deep_ctl(inp['shape'], inp['k'])
    M = ref.Model(K)
    exp = ref.ctl_eval(M, f)
    out = call(K, f, inp.get('naming', 'int'), inp.get('how', 0), 'obj')
    if out[0] == 'exc' and out[1] == 'RecursionError':
        return 'recursion'
    return compare(inp, exp, out)


def deep_shard(st, shard, nshards, payload):
    i = -1
    for n, stride in payload['ks_scopes']:
        for j, K in enumerate(km.scope_strided(n, stride) if n >= 4 else list(km.scope(n))[::stride]):
            for shape in DEEP_SHAPES:
                for k in payload['ks']:
                    i += 1
                    if i % nshards != shard:
                        continue
                    inp = {'K': K, 'shape': shape, 'k': k, 'naming': NAMINGS[j % len(NAMINGS)], 'how': j % 6}
                    r = check_deep(inp)
                    if r == 'recursion':
                        st.bump('deep: checker hit the recursion limit (skipped)')
                        continue
                    st.evaluations += 1
                    st.nontrivial += 1
                    st.bump('deep: nesting >= %d' % (50 * (k // 50)))
                    if j % 17 == 0 and k in (60, 100):
                        st.sample(inp, cls='deep-' + shape)
                    if r is not None:
                        if st.failure is None:
                            st.failure = r
                        return


BUSY, DONE = ('ap', 'busy'), ('ap', 'done')
BIG_FORMULAS = [('A', ('F', DONE)), ('E', ('G', BUSY)), ('A', ('U', BUSY, DONE)), ('E', ('R', DONE, BUSY)),
                ('E', ('F', ('and', DONE, ('E', ('X', DONE))))), ('A', ('G', ('or', BUSY, DONE))), ('E', ('X', BUSY)),
                ('not', ('E', ('U', BUSY, ('not', BUSY)))), ('A', ('G', ('E', ('F', DONE)))), ('E', ('G', ('not', DONE))),
                ('A', ('R', DONE, BUSY)), ('A', ('X', ('A', ('X', BUSY))))]
_BIG = {}


def check_big(inp):
    """CTL.modelcheck (and, for 'via' CTLS / LTL, the other checkers on the CTL-shaped formula) on a
    structure with thousands of states = the reference."""
    key = (inp['shape'], inp['N'])
    if key not in _BIG:
        _BIG.clear()
        K = km.big_structure(*key)
        _BIG[key] = (K, ref.Model(K), km.to_lib(K, inp.get('naming', 'int'), 0))
    K, M, kripke = _BIG[key]
    f = fm.from_json(inp['f'])
    exp = ref.ctl_eval(M, f)
    via = inp.get('via', 'CTL')
    out = mc.call(via, K, f, inp.get('naming', 'int'), 0, form='obj', kripke=kripke)
    return compare(inp, exp, out)


def big_shard(st, shard, nshards, payload):
    i = -1
    for shape in km.BIG_SHAPES:
        for N in payload['Ns']:
            i += 1
            if i % nshards != shard:
                continue
            for fi, f in enumerate(BIG_FORMULAS):
                vias = ['CTL'] + (['CTLS'] if fi % 2 == 0 else []) + \
                    (['LTL'] if (fi in (0, 2, 5) and N <= payload['ltl_max']) else [])
                for via in vias:
                    inp = {'shape': shape, 'N': N, 'f': f, 'via': via}
                    st.evaluations += 1
                    st.nontrivial += 1
                    st.bump('big structures: %d+ states' % (1000 * (N // 1000)))
                    if fi == 0 and via == 'CTL':
                        st.sample(inp, cls='big-' + shape)
                    r = check_big(inp)
                    if r is not None:
                        if st.failure is None:
                            st.failure = r
                        return


def _EXq():
    return ('E', ('X', fm.Q))


VOCAB_TEMPLATES = [fm.P, ('or', _EXq(), fm.P), ('A', ('G', ('imp', _EXq(), fm.P))), ('and', fm.P, _EXq()),
                   ('E', ('U', fm.P, fm.Q)), ('A', ('F', fm.P)), ('E', ('G', ('not', fm.P))), ('A', ('R', fm.Q, fm.P)),
                   ('A', ('X', ('or', fm.P, ('E', ('G', fm.Q)))))]
VOCAB_STRUCTURES = [(2, 77), (3, 1000), (3, 2345), (3, 3210), (3, 4044)]


def vocab_shard(st, shard, nshards, payload):
    """Atoms named like the identifiers and string constants of the library's own source (vp/vocab.py):
    p is spelled as each of them in turn, q stays."""
    from .. import vocab
    names = vocab.names()[::payload.get('stride', 1)]
    Ks = [km.scope_at(n, i) for (n, i) in VOCAB_STRUCTURES]
    i = -1
    for w in names:
        for ki, K in enumerate(Ks):
            for ti, t in enumerate(VOCAB_TEMPLATES):
                i += 1
                if i % nshards != shard or (ki + ti) % payload.get('thin', 1):
                    continue
                inp = {'K': K, 'f': t, 'naming': NAMINGS[(ki + ti) % 3], 'how': ti % 6, 'form': ('obj', 'text')[ti % 2],
                       'atoms': {'p': w}, 'cross': False}
                st.evaluations += 1
                if ti == 0 and ki == 0:
                    st.bump('vocabulary: atom names tried')
                r = check_ctl(inp)
                if r is not None:
                    if st.failure is None:
                        st.failure = r
                    return


CHECKS = {'ctl': check_ctl, 'deep': check_deep, 'big': check_big}


def replay(ctx, rec):
    r = CHECKS[rec['check']](rec['input'])
    return None if r == 'recursion' else r


def is_nontrivial(M, f, exp):
    return bool(pairs_in(f)) and exp not in (0, M.full)


def enum_shard(st, shard, nshards, payload):
    L = fm.lang('CTL')
    idx = -1
    for (n, k, stride) in payload['scopes']:
        forms = ctl_scope(k)
        objs = {}
        fpairs = [sorted(pairs_in(f)) for f in forms]
        for j, K in enumerate(scope_iter(n, stride, nshards)):
            # every stride-th structure of THIS scope (S(4)+ are already strided by the decoder),
            # dealt round-robin to the shards
            if n < 4:
                if j % stride:
                    continue
                j //= stride
            # work is dealt to the shards per (structure, formula) item, not per structure: scopes
            # with few structures and many (or slow) formulas would otherwise leave shards idle
            idx = j
            M = ref.Model(K)
            feats = km.features(K)
            naming = NAMINGS[idx % len(NAMINGS)]
            how = idx % 6
            ai = (idx // 2) % len(fm.ATOM_MAPS)
            amap = fm.atom_map(ai)
            cont = 'shared' if idx % 4 == 3 else 'list'
            kripke = km.to_lib(km.rename_labels(K, amap), naming, how, cont)
            back = dict((km.name_of(naming)(i), i) for i in range(n))
            memo = {}
            for fi, f in enumerate(forms):
                if (j * 7 + fi) % nshards != shard:
                    continue
                exp = ref.ctl_eval(M, f, memo)
                ok_ = (fi, ai if amap else None)
                if ok_ not in objs:
                    objs[ok_] = fm.to_lib(fm.rename_atoms(f, amap), L, raw_leaves=(fi % 3 == 2), share={} if fi % 2 else None)
                try:
                    res = L.modelcheck(kripke, objs[ok_])
                    out = mc.normalise(res, back)
                except Exception as e:
                    out = ('exc', type(e).__name__, str(e)[:200])
                st.evaluations += 1
                nt = bool(fpairs[fi]) and exp not in (0, M.full)
                if nt:
                    st.nontrivial += 1
                    for p in fpairs[fi]:
                        st.bump('pair ' + p)
                    for ft in feats:
                        st.bump(ft)
                if out != ('set', exp):
                    inp = {'K': K, 'f': f, 'naming': naming, 'how': how, 'form': 'raw' if fi % 3 == 2 else ('shared' if fi % 2 else 'obj'), 'atoms': ai, 'containers': cont}
                    fresh = check_ctl(inp)
                    if fresh is None:
                        st.add_extra('mismatch_only_with_reused_structure')
                        continue
                    if st.failure is None:
                        st.failure = fresh
                    return
                if nt and (fi % 37 == 0):
                    st.sample({'K': K, 'f': f, 'expected': ref.mask_to_list(exp)},
                              cls='n%d-%s' % (n, ','.join(fpairs[fi])))


def ctl_scope(k):
    """k = operator bound, or 'k3' = every 37th CTL formula with exactly 3 operators over {p,q}
    (1 725 of 63 798, by mixed-radix decoding): depth-3 nestings such as EG under AU under not."""
    if k == 'k3':
        return fm.enum_strided(fm.CTL_UN, fm.CTL_BIN, (fm.P, fm.Q), 3, 37)
    if k == 'rep':
        return fm.ctl_repeated()
    if k == 'nary':
        return fm.ctl_nary()
    if k == 'twins':
        return fm.ctl_twins()
    if isinstance(k, str) and k.startswith('ctx3/'):
        subs = fm.enum_exact(fm.CTL_UN, fm.CTL_BIN, fm.LEAVES4, 1, 'ctl')
        return fm.context_family(fm.CTL_UN, fm.CTL_BIN, 3, 'ctl', subs, int(k[5:]))
    if isinstance(k, str) and k.startswith('ctx/'):
        # ANY repeated compound subformula (Boolean ones too) in every context of <= 2 operators
        return fm.ctl_context(int(k[4:]))
    return fm.ctl_formulas(k)


def scope_iter(n, stride, nshards):
    """S(n) for n <= 3 (the caller applies the stride); for n >= 4 the strided decode."""
    if n >= 4:
        return km.scope_strided(n, stride)
    return km.scope(n)


def minimise(f, check, valid=fm.ctl_state, key='f'):
    """Greedy delta-minimiser: smaller formula (replace by a child), fewer labels, edges.

    Only candidates that are still formulas of the property's domain (`valid`) are tried.
    """
    if f.check == 'build' or key not in f.input:
        return f                      # the structure could not even be built: nothing to minimise here
    inp = dict(f.input)
    best = f

    def try_(cand):
        nonlocal inp, best
        try:
            g = check(cand)
        except core.HarnessError:
            return False
        if g is not None:
            inp, best = cand, g
            return True
        return False

    changed = True
    while changed:
        changed = False
        form = fm.from_json(inp[key])
        for cand_f in _smaller(form):
            if valid(cand_f) and try_(dict(inp, **{key: cand_f})):
                changed = True
                break
        if changed:
            continue
        K = inp['K']
        for i, lab in enumerate(K['labels']):
            for a in lab:
                labels = [list(l) for l in K['labels']]
                labels[i] = [x for x in lab if x != a]
                if try_(dict(inp, K=dict(K, labels=labels))):
                    changed = True
                    break
            if changed:
                break
        if changed:
            continue
        for e in K['edges']:
            edges = [x for x in K['edges'] if x != e]
            cand = dict(K, edges=edges)
            if km.is_total(cand) and try_(dict(inp, K=cand)):
                changed = True
                break
    return best


def _smaller(t):
    """Candidate formulas strictly smaller than t (children hoisted, subterms simplified)."""
    out = []
    for c in fm.children(t):
        out.append(c)
    if t[0] not in fm.LEAF:
        for i, c in enumerate(t[1:]):
            for c2 in _smaller(c):
                out.append(t[:i + 1] + (c2,) + t[i + 2:])
        if t[0] in ('and', 'or') and len(t) > 3:
            for i in range(1, len(t)):
                out.append(t[:i] + t[i + 1:])
    elif t[0] in ('true', 'false'):
        pass
    return out


SCOPE_LEGEND = {
    '1': 'CTL formulas with <= 1 operator over {p,q,true,false} (144)', '2': 'CTL formulas with <= 2 operators (8964)',
    'k3': 'k3 (every 37th CTL formula with exactly 3 operators over p,q)',
    'rep': 'rep (2160 CTL formulas with a repeated quantified subformula)',
    'nary': 'nary (3- and 4-ary and/or, also with duplicate operands)',
    'twins': 'twins (280 formulas containing a formula together with its restricted-syntax rewriting)',
    'ctx': 'ctx (117600 formulas: every context of <= 2 operators over {p,q,SLOT} with SLOT at least twice x every 1-operator CTL formula for SLOT)',
    'ctx3': 'ctx3 (the same with contexts of <= 3 operators, 11.7 M formulas)'}

def run(ctx):
    from hypothesis import strategies as hs
    ctx.rule = ('S(n) = every total Kripke structure with exactly n states over atoms {p,q} '
                '(labelled, not up to isomorphism), each under a state naming/collection order '
                'chosen by its index; CTL formulas with <= k operator applications over leaves '
                '{p,q,true,false} (operators: not, and, or, -->, and the 10 quantifier/temporal '
                'pairs).  Oracle: independent fixpoint semantics R-CTL; both inclusions. '
                'Random tier: Hypothesis structures <= 6 states x formulas depth <= 4 with n-ary '
                'and/or, as object / independent text / library str / CTL* object.  '
                'Non-trivial = formula has >= 1 temporal pair and the expected set is neither '
                'empty nor all states; exhaustive cases distinct by construction, random ones '
                'counted by digest of (K, f).')
    if ctx.thorough:
        scopes = [(1, 2, 1), (2, 2, 1), (3, 1, 1), (3, 2, 97), (4, 1, 211), (3, 'k3', 11), (4, 'k3', 20011),
                  (4, 2, 20011), (5, 1, 4000037), (2, 'rep', 1), (3, 'rep', 23), (4, 'rep', 100003),
                  (2, 'nary', 1), (3, 'nary', 23), (4, 'nary', 100003),
                  (2, 'twins', 1), (3, 'twins', 7), (4, 'twins', 20011),
                  (1, 'ctx/1', 1), (2, 'ctx/3', 1), (3, 'ctx/7', 397), (1, 'ctx3/23', 1), (2, 'ctx3/211', 5)]
    else:
        scopes = [(1, 2, 1), (2, 1, 1), (2, 2, 9), (3, 1, 8), (4, 1, 4001), (3, 'k3', 101), (4, 'k3', 400009),
                  (5, 1, 40000003), (2, 'rep', 6), (3, 'rep', 401), (2, 'nary', 6), (3, 'nary', 401), (2, 'twins', 2), (3, 'twins', 101), (4, 'twins', 400009),
                  (1, 'ctx/1', 1), (2, 'ctx/23', 9), (1, 'ctx3/1009', 1)]
    ctx.scopes = core.describe_scopes(scopes, SCOPE_LEGEND)
    ctx.exhaustive = True
    ctx.assumptions = ['reference semantics vp/ref.py (R-CTL, cross-checked against R-STAR in '
                       'the random tier and on replay) is the trusted base']
    f = core.run_sharded(ctx, enum_shard, {'scopes': scopes})
    if f is not None:
        ctx.violation(minimise(f, check_ctl))
        return

    dp = {'ks': ctx.pick([15, 40, 100], [10, 25, 40, 60, 80, 100, 130]),
          'ks_scopes': ctx.pick([(2, 11), (3, 1201)], [(1, 1), (2, 2), (3, 211), (4, 2000003)])}
    ctx.scopes.append('nesting: 9 chain shapes (AX^k p, q or EX(..), E[q U ..], guard chains, mixed) at nesting %s on %s'
                      % (dp['ks'], ', '.join('every %dth of S(%d)' % (s_, n_) for n_, s_ in dp['ks_scopes'])))
    f = core.run_sharded(ctx, deep_shard, dp)
    if f is not None:
        ctx.violation(f)
        return

    ctx.scopes.append('vocabulary: p spelled as each identifier / string constant of the library source (about 500 names, read from the tree '
                      'under test) x 9 CTL templates x 5 structures%s' % ('' if ctx.thorough else ' (every 2nd combination)'))
    f = core.run_sharded(ctx, vocab_shard, {'thin': ctx.pick(2, 1)})
    if f is not None:
        ctx.violation(f)
        return
    bp = {'Ns': ctx.pick([1100], [400, 1100, 2600]), 'ltl_max': ctx.pick(0, 1100)}
    ctx.scopes.append('size: 8 shapes (timer, countdown, ring, lollipop, ladder, tree, two rings, fan) with %s states x 12 CTL formulas '
                      'through CTL (and CTL* / LTL for those they share)' % [n_ + 1 for n_ in bp['Ns']])
    f = core.run_sharded(ctx, big_shard, bp)
    if f is not None:
        ctx.violation(f)
        return

    f = core.run_random(ctx, random_shard, 4000, 40000)
    if f is not None:
        ctx.violation(f)


def random_shard(st, shard, nshards, payload):
    from hypothesis import strategies as hs
    case = hs.fixed_dictionaries({
        'K': km.st_kripke(1, 6),
        'f': fm.st_formula('ctl', max_depth=4),
        'naming': hs.sampled_from(NAMINGS),
        'how': hs.integers(0, 5),
        'atoms': hs.integers(0, len(fm.ATOM_MAPS) - 1),
        'containers': hs.sampled_from(['list', 'list', 'set', 'tuple', 'shared']),
        'form': hs.sampled_from(FORMS),
    })

    def body(inp):
        f_ = fm.from_json(inp['f'])
        M = ref.Model(inp['K'])
        exp = ref.ctl_eval(M, f_)
        nt = is_nontrivial(M, f_, exp)
        st.random_case([inp['K'], inp['f']], nt)
        st.bump('random form=' + inp['form'])
        st.bump('random states=%d' % inp['K']['n'])
        st.bump('random depth=%d' % fm.depth(f_))
        if nt:
            for p in pairs_in(f_):
                st.bump('random pair ' + p)
            st.sample(dict(inp, expected=ref.mask_to_list(exp)), cls='random-%s-%d' % (inp['form'], inp['K']['n']))
        st.add_extra('reference_cross_checks')
        return check_ctl(inp)

    f = core.hyp_run(payload['seed'] * 1000 + shard, case, body, payload['n'])
    if f is not None:
        st.failure = f
