"""C04 - the three checkers agree with each other and obey the semantic laws.

No reference semantics: only differential (checker vs checker, text vs object) and
metamorphic (Boolean laws, duality, fixpoint expansion) relations between answers of the
code under test.
"""
from .. import core, fm, km, mc
from ..core import Failure
from .. import graphs

NAMINGS = ['int', 'str', 'tuple', 'mixed', 'zigzag', 'fsets']


def N(f):
    return ('not', f)


def Q(q, o, *a):
    return (q, (o,) + a)


# law name -> (arity, logic family, builder(f[, g]) -> (lhs, rhs))   with lhs == rhs expected
def _laws():
    L = {}
    # Boolean laws are handled separately (they relate three answers)
    for q, d in (('A', 'E'), ('E', 'A')):
        L['dual-%sX' % q] = (1, 'CTL', lambda f, q=q, d=d: (Q(q, 'X', f), N(Q(d, 'X', N(f)))))
        L['dual-%sF' % q] = (1, 'CTL', lambda f, q=q, d=d: (Q(q, 'F', f), N(Q(d, 'G', N(f)))))
        L['dual-%sG' % q] = (1, 'CTL', lambda f, q=q, d=d: (Q(q, 'G', f), N(Q(d, 'F', N(f)))))
        L['dual-%sU' % q] = (2, 'CTL', lambda f, g, q=q, d=d: (Q(q, 'U', f, g), N(Q(d, 'R', N(f), N(g)))))
        L['dual-%sR' % q] = (2, 'CTL', lambda f, g, q=q, d=d: (Q(q, 'R', f, g), N(Q(d, 'U', N(f), N(g)))))
        L['exp-%sF' % q] = (1, 'CTL', lambda f, q=q: (Q(q, 'F', f), ('or', f, Q(q, 'X', Q(q, 'F', f)))))
        L['exp-%sG' % q] = (1, 'CTL', lambda f, q=q: (Q(q, 'G', f), ('and', f, Q(q, 'X', Q(q, 'G', f)))))
        L['exp-%sU' % q] = (2, 'CTL', lambda f, g, q=q: (
            Q(q, 'U', f, g), ('or', g, ('and', f, Q(q, 'X', Q(q, 'U', f, g))))))
        L['exp-%sR' % q] = (2, 'CTL', lambda f, g, q=q: (
            Q(q, 'R', f, g), ('and', g, ('or', f, Q(q, 'X', Q(q, 'R', f, g))))))
    # CTL*: A g = not E not g for an arbitrary path formula g
    L['star-dual-A'] = (1, 'STARPATH', lambda g: (('A', g), N(('E', N(g)))))
    L['star-dual-E'] = (1, 'STARPATH', lambda g: (('E', g), N(('A', N(g)))))
    # LTL
    L['ltl-G-exp'] = (1, 'LTL', lambda g: (('A', ('G', g)), ('A', ('and', g, ('X', ('G', g))))))
    L['ltl-F-exp'] = (1, 'LTL', lambda g: (('A', ('F', g)), ('A', ('or', g, ('X', ('F', g))))))
    L['ltl-U-exp'] = (2, 'LTL', lambda g, h: (('A', ('U', g, h)), ('A', ('or', h, ('and', g, ('X', ('U', g, h)))))))
    L['ltl-R-exp'] = (2, 'LTL', lambda g, h: (('A', ('R', g, h)), ('A', ('and', h, ('or', g, ('X', ('R', g, h)))))))
    L['ltl-notnot'] = (1, 'LTL', lambda g: (('A', N(N(g))), ('A', g)))
    L['ltl-F-as-U'] = (1, 'LTL', lambda g: (('A', ('F', g)), ('A', ('U', fm.TRUE, g))))
    L['ltl-G-as-R'] = (1, 'LTL', lambda g: (('A', ('G', g)), ('A', ('R', fm.FALSE, g))))
    return L


LAWS = _laws()
# which checkers evaluate a law of a family (with objects of which language)
FAMILY_RUNS = {
    'CTL': [('CTL', 'CTL'), ('CTLS', 'CTLS'), ('CTLS', 'CTL')],
    'STARPATH': [('CTLS', 'CTLS')],
    'LTL': [('LTL', 'LTL'), ('CTLS', 'CTLS'), ('CTLS', 'LTL')],
}


class Env(object):
    """One structure under one presentation, with a per-structure answer cache."""

    def __init__(self, K, naming='int', how=0):
        self.K = K
        self.naming = naming
        self.how = how
        self.kripke = km.to_lib(K, naming, how)
        nm = graphs.NAMINGS[naming]
        self.back = dict((nm(i), i) for i in range(K['n']))
        self.full = (1 << K['n']) - 1
        self.cache = {}

    def ask(self, checker, objlang, form, t):
        key = (checker, objlang, form, t)
        if key not in self.cache:
            self.cache[key] = self._ask(checker, objlang, form, t)
        return self.cache[key]

    def _ask(self, checker, objlang, form, t):
        L = fm.lang(checker)
        try:
            if form == 'text':
                arg = fm.to_text(t)
            elif form == 'textsym':
                # symbolic operators (~ & | -->), extra parentheses around atoms, tight layout
                from .c10 import tokens_of, join
                arg = join(tokens_of(t, checker, sym=True, extra=(fm.size(t) % 2 == 0)), tight=(1 if fm.size(t) % 3 else 2))
            else:
                arg = fm.to_lib(t, fm.lang(objlang))
                if form == 'str':
                    arg = str(arg)
        except Exception as e:
            raise core.HarnessError('cannot build %r in %s: %s' % (t, objlang, e))
        kw = {}
        if form != 'obj' and fm.size(t) % 5:
            # building a Lark parser per call dominates the cost: pass a prebuilt one through
            # the documented `parser` argument, except for one size class in five
            kw['parser'] = _parser(checker)
        try:
            with core.quiet():
                res = L.modelcheck(self.kripke, arg, **kw)
        except Exception as e:
            return ('exc', type(e).__name__, str(e)[:120])
        return mc.normalise(res, self.back)


_PARSERS = {}


def _parser(checker):
    if checker not in _PARSERS:
        _PARSERS[checker] = fm.lang(checker).Parser()
    return _PARSERS[checker]


def _desc(checker, objlang, form):
    return '%s.modelcheck(%s %s)' % (checker, objlang, 'object' if form == 'obj' else form)


def check_law(inp):
    """inp: {'K','law','f'[,'g'],'naming','how'}: lhs and rhs of the law get equal answers
    from every checker of the law's family."""
    env = Env(inp['K'], inp.get('naming', 'int'), inp.get('how', 0))
    return law_on(env, inp)


def law_on(env, inp):
    arity, family, builder = LAWS[inp['law']]
    f = fm.from_json(inp['f'])
    args = (f,) if arity == 1 else (f, fm.from_json(inp['g']))
    lhs, rhs = builder(*args)
    for checker, objlang in FAMILY_RUNS[family]:
        a = env.ask(checker, objlang, 'obj', lhs)
        b = env.ask(checker, objlang, 'obj', rhs)
        own = (checker == objlang) or (checker == 'CTLS')
        for side, o, t in (('lhs', a, lhs), ('rhs', b, rhs)):
            if o[0] != 'set':
                if o[0] == 'exc' and o[1] == 'TypeError' and not own:
                    break               # sibling-language object refused: tolerated (DESIGN C04)
                return Failure('law', inp, 'a set of states', mc.show(o),
                               '%s on the %s %r' % (_desc(checker, objlang, 'obj'), side, t))
        else:
            if a != b:
                return Failure('law', inp, 'equal answers for both sides of %s' % inp['law'],
                               {'lhs': mc.show(a), 'rhs': mc.show(b)},
                               '%s: %r vs %r' % (_desc(checker, objlang, 'obj'), lhs, rhs))
    return None


def check_bool(inp):
    """Boolean laws on state formulas f, g of CTL (family 'CTL') or quantified CTL* formulas:
    not = complement, and = intersection, or = union, --> = complement-union.
    family 'LTL': A(g and h) = A g & A h, A(g or h) >= A g | A h."""
    env = Env(inp['K'], inp.get('naming', 'int'), inp.get('how', 0))
    return bool_on(env, inp)


def bool_on(env, inp):
    family = inp['family']
    f, g = fm.from_json(inp['f']), fm.from_json(inp['g'])
    S = env.full
    runs = FAMILY_RUNS['CTL' if family == 'CTL' else ('LTL' if family == 'LTL' else 'STARPATH')]
    for checker, objlang in runs:
        def ask(t):
            return env.ask(checker, objlang, 'obj', t)
        if family == 'LTL':
            items = {'f': ('A', f), 'g': ('A', g), 'and': ('A', ('and', f, g)), 'or': ('A', ('or', f, g)),
                     'and3': ('A', ('and', f, g, f)), 'imp': ('A', ('imp', f, g))}
        else:
            items = {'f': f, 'g': g, 'not': N(f), 'and': ('and', f, g), 'or': ('or', f, g),
                     'imp': ('imp', f, g), 'and3': ('and', f, g, N(f)), 'or3': ('or', g, f, N(f)),
                     'and4': ('and', f, g, g, f), 'or5': ('or', f, f, g, f, g)}
        r = {}
        refused = False
        for k, t in items.items():
            o = ask(t)
            if o[0] != 'set':
                own = (checker == objlang) or (checker == 'CTLS')
                if o[0] == 'exc' and o[1] == 'TypeError' and not own:
                    refused = True
                    break
                return Failure('bool', inp, 'a set of states', mc.show(o),
                               '%s on %r' % (_desc(checker, objlang, 'obj'), t))
            r[k] = o[1]
        if refused:
            continue
        if family == 'LTL':
            exp = [('and', r['f'] & r['g'], r['and'] == (r['f'] & r['g'])),
                   ('and3', r['f'] & r['g'], r['and3'] == (r['f'] & r['g'])),
                   ('or', 'a superset of %s' % mc.show_mask(r['f'] | r['g']),
                    (r['or'] & (r['f'] | r['g'])) == (r['f'] | r['g']))]
        else:
            exp = [('not', S & ~r['f'], r['not'] == S & ~r['f']),
                   ('and', r['f'] & r['g'], r['and'] == r['f'] & r['g']),
                   ('or', r['f'] | r['g'], r['or'] == r['f'] | r['g']),
                   ('imp', (S & ~r['f']) | r['g'], r['imp'] == (S & ~r['f']) | r['g']),
                   ('and3', 0, r['and3'] == 0),
                   ('or3', S, r['or3'] == S),
                   ('and4', r['f'] & r['g'], r['and4'] == r['f'] & r['g']),
                   ('or5', r['f'] | r['g'], r['or5'] == r['f'] | r['g'])]
        for name, want, ok in exp:
            if not ok:
                return Failure('bool', inp, mc.show_mask(want) if isinstance(want, int) else want,
                               mc.show_mask(r[name]),
                               '%s: answer for %r given f -> %s, g -> %s' % (
                                   _desc(checker, objlang, 'obj'), items[name],
                                   mc.show_mask(r['f']), mc.show_mask(r['g'])))
    return None


def check_cross(inp):
    """A formula that belongs to several logics gets the same set from every checker and from
    text and object input.  inp: {'K','f','naming','how'}; f is a state formula of CTL*, and
    is tried with every checker whose logic it belongs to."""
    env = Env(inp['K'], inp.get('naming', 'int'), inp.get('how', 0))
    return cross_on(env, inp)


def cross_on(env, inp):
    f = fm.from_json(inp['f'])
    answers = []
    for checker in ('CTL', 'LTL', 'CTLS'):
        if fm.kind(checker, f) != 'state':
            continue
        combos = [(checker, 'obj'), ('CTLS', 'obj'), ('CTLS', 'str'), (None, 'text'), (None, 'textsym')]
        if checker == 'CTLS':
            # README: the CTLS module model checks CTL and LTL formulas too
            for sib in ('CTL', 'LTL'):
                if fm.kind(sib, f) == 'state':
                    combos.append((sib, 'obj'))
        else:
            for sib in ('CTL', 'LTL'):
                if sib != checker and fm.kind(sib, f) == 'state':
                    combos.append((sib, 'obj:sibling'))
        for objlang, form in combos:
            sibling = form.endswith(':sibling')
            o = env.ask(checker, objlang or checker, form.split(':')[0], f)
            if o[0] != 'set':
                if sibling and o[0] == 'exc' and o[1] == 'TypeError':
                    continue
                return Failure('cross', inp, 'a set of states', mc.show(o),
                               _desc(checker, objlang or '-', form))
            answers.append((_desc(checker, objlang or '-', form), o[1]))
    for d, a in answers[1:]:
        if a != answers[0][1]:
            return Failure('cross', inp, 'the same set from every entry point',
                           dict((k, mc.show_mask(v)) for k, v in answers), '%s differs from %s' % (d, answers[0][0]))
    return None


def check_overload(inp):
    """Formulas assembled with the documented operators & | ~ from NAMED intermediate objects that are
    used again (inv = f & g; spec1 = inv & h; spec2 = inv | h; spec3 = h & inv; ~inv): every one of them
    is checked AFTER all of them were built and must get the answer of the same formula built by the
    constructors (the Boolean laws make the grouping irrelevant), inv included."""
    env = Env(inp['K'], inp.get('naming', 'int'), inp.get('how', 0))
    f, g, h = fm.from_json(inp['f']), fm.from_json(inp['g']), fm.from_json(inp['h'])
    for checker in inp.get('checkers', ('CTL', 'CTLS')):
        L = fm.lang(checker)
        if any(fm.kind(checker, t) != 'state' for t in (f, g, h)):
            continue
        try:
            a, b, c = fm.to_lib(f, L), fm.to_lib(g, L), fm.to_lib(h, L)
            inv = a & b
            items = [('inv = f & g', inv, ('and', f, g))]
            items.append(('spec1 = inv & h', inv & c, ('and', ('and', f, g), h)))
            items.append(('spec2 = inv | h', inv | c, ('or', ('and', f, g), h)))
            items.append(('spec3 = h & inv', c & inv, ('and', h, ('and', f, g))))
            either = a | b
            items.append(('either = f | g', either, ('or', f, g)))
            items.append(('spec4 = either | h', either | c, ('or', ('or', f, g), h)))
            items.append(('spec5 = either & inv', either & inv, ('and', ('or', f, g), ('and', f, g))))
            items.append(('~inv', ~inv, ('not', ('and', f, g))))
            items.append(('f again', a, f))
        except Exception as e:
            return Failure('overload', inp, 'formulas can be combined with & | ~', 'raised %s: %s' % (type(e).__name__, str(e)[:150]))
        for what, obj, t in items:
            try:
                with core.quiet():
                    got = mc.normalise(L.modelcheck(env.kripke, obj), env.back)
            except Exception as e:
                got = ('exc', type(e).__name__, str(e)[:100])
            want = env.ask(checker, checker, 'obj', t)
            if got != want:
                return Failure('overload', inp, mc.show(want), mc.show(got),
                               '%s.modelcheck of %s (built with operators from re-used objects) differs from the constructor-built %s'
                               % (checker, what, fm.to_text(t)))
    return None


def apply_edit(env, ed):
    """The CALLER edits its structure object through the public API between questions:
    ['label', s, atom] toggles an atom in labels(s); ['relabel'] swaps p and q everywhere through
    replace_labelling_function; ['edge', a, b] adds a transition that is not there yet."""
    K = env.K
    n = K['n']
    nm = graphs.NAMINGS[env.naming]
    labels = [list(l) for l in K['labels']]
    edges = [list(e) for e in K['edges']]
    if ed[0] == 'label':
        s_, a = ed[1] % n, ed[2]
        cur = env.kripke.labels(nm(s_))
        if a in cur:
            cur.discard(a)
            labels[s_] = [x for x in labels[s_] if x != a]
        else:
            cur.add(a)
            labels[s_] = sorted(labels[s_] + [a])
    elif ed[0] == 'relabel':
        sw = {'p': 'q', 'q': 'p'}
        labels = [sorted(sw.get(x, x) for x in l) for l in labels]
        newL = dict((nm(i), set(labels[i])) for i in range(n))
        newL[('not-a-state', n)] = set(['p', 'q'])          # a table kept for a larger family of models
        env.kripke.replace_labelling_function(newL)
    elif ed[0] == 'edge':
        a, b = ed[1] % n, ed[2] % n
        if [a, b] not in edges:
            env.kripke.add_edge(nm(a), nm(b))
            edges = sorted(edges + [[a, b]])
    else:
        raise core.HarnessError('unknown edit %r' % (ed,))
    env.K = dict(K, labels=labels, edges=edges)
    env.cache = {}


def check_cross_edit(inp):
    """The checkers agree on f, the caller edits the structure object, they are asked again (f and, if
    given, f2): every entry point must again give one and the same set - for the structure as it is now."""
    env = Env(inp['K'], inp.get('naming', 'int'), inp.get('how', 0))
    r = cross_on(env, inp)
    if r is not None:
        return r
    for k, ed in enumerate(inp['edits']):
        try:
            apply_edit(env, ed)
        except core.HarnessError:
            raise
        except Exception as e:
            return Failure('cross_edit', inp, 'the edit %r succeeds' % (ed,), 'raised %s: %s' % (type(e).__name__, e))
        for f in [inp['f']] + ([inp['f2']] if inp.get('f2') else []):
            r = cross_on(env, dict(inp, f=f))
            if r is not None:
                return Failure('cross_edit', inp, r.expected, r.actual,
                               'after edit %d %r, formula %s on %r: %s' % (k, ed, fm.to_text(fm.from_json(f)), env.K, r.note))
    return None


CHECKS = {'law': check_law, 'bool': check_bool, 'cross': check_cross, 'cross_edit': check_cross_edit, 'overload': check_overload}


def replay(ctx, rec):
    return CHECKS[rec['check']](rec['input'])


# ---------------------------------------------------------------------------------------

def ctl_small():
    """CTL operands for the two-argument laws: leaves and a few one-operator formulas."""
    return list(fm.LEAVES4) + [N(fm.P), ('and', fm.P, fm.Q), ('or', fm.P, fm.Q), Q('E', 'X', fm.P),
                               Q('A', 'X', fm.Q), Q('E', 'G', fm.P), Q('A', 'F', fm.Q),
                               Q('E', 'U', fm.P, fm.Q), Q('A', 'U', fm.Q, fm.P), Q('A', 'R', fm.P, fm.Q),
                               Q('E', 'F', fm.Q), Q('A', 'G', fm.P)]


def shared_fragment():
    """Formulas of CTL, LTL and CTL* at once: A over one temporal operator with propositional
    operands.  All three checkers (different algorithms: fixpoints, tableau) must agree."""
    props = [fm.P, fm.Q, N(fm.P), ('and', fm.P, fm.Q), ('or', fm.P, N(fm.Q)), fm.TRUE]
    out = []
    for o in ('X', 'F', 'G'):
        out += [('A', (o, a)) for a in props]
    for o in ('U', 'R'):
        out += [('A', (o, a, b)) for a in props[:4] for b in props[:5] if a != b]
    return out


def jobs(payload):
    """Deterministic list of (kind, dict) law instances, independent of the structure."""
    out = []
    if payload.get('shared_only'):
        return [('cross', {'f': f}) for f in shared_fragment()]
    c1 = fm.ctl_formulas(1)
    small = ctl_small()
    fs = c1[::payload['f_stride']]
    for name, (arity, family, _) in sorted(LAWS.items()):
        if family == 'CTL':
            if arity == 1:
                out += [('law', {'law': name, 'f': f}) for f in fs]
            else:
                out += [('law', {'law': name, 'f': f, 'g': g}) for f in fs[::2] for g in small[::payload['g_stride']]]
        elif family == 'LTL':
            p1 = fm.ltl_paths(1)[::payload['f_stride']]
            if arity == 1:
                out += [('law', {'law': name, 'f': g}) for g in p1]
            else:
                out += [('law', {'law': name, 'f': g, 'g': h}) for g in p1 for h in fm.LEAVES4[:payload['ltl_leaves']]]
        else:
            p = fm.ltl_paths(payload['star_k'])[::payload['f_stride']]
            out += [('law', {'law': name, 'f': g}) for g in p]
    out += [('bool', {'family': 'CTL', 'f': f, 'g': g}) for f in fs for g in small[::payload['g_stride']]]
    p1 = fm.ltl_paths(1)[::payload['f_stride']]
    out += [('bool', {'family': 'LTL', 'f': g, 'g': h}) for g in p1 for h in p1[::7]]
    qs = [(q, g) for q in 'AE' for g in fm.ltl_paths(1) if g[0] in fm.TEMP or fm.temporal_count(g)][::payload['f_stride']]
    out += [('bool', {'family': 'STAR', 'f': a, 'g': b}) for a in qs for b in qs[::5]]
    out += [('cross', {'f': f}) for f in fm.ctl_formulas(payload['cross_k'])[::payload['cross_stride']]]
    out += [('cross', {'f': ('A', g)}) for g in fm.ltl_paths(payload['cross_k'])[::payload['cross_stride']]]
    return out


def enum_shard(st, shard, nshards, payload):
    work = jobs(payload)
    idx = -1
    for n in payload['ns']:
        structs = km.scope(n) if n < 4 else km.scope_strided(n, payload['k_stride'])
        for j, K in enumerate(structs):
            # every k_stride-th structure of this scope (S(4)+ are strided by the decoder, S(1) is
            # always complete), dealt round-robin to the shards
            if 2 <= n < 4 and payload['k_stride'] > 1:
                if j % payload['k_stride']:
                    continue
                j //= payload['k_stride']
            if j % nshards != shard:
                continue
            idx += 1 + shard
            naming = NAMINGS[idx % len(NAMINGS)]
            env = Env(K, naming, idx % 6)
            for kind, d in work:
                inp = dict(d, K=K, naming=naming, how=idx % 6)
                st.evaluations += 1
                if kind == 'law':
                    f = law_on(env, inp)
                elif kind == 'bool':
                    f = bool_on(env, inp)
                else:
                    f = cross_on(env, inp)
                if f is not None:
                    # confirm on a fresh structure object (no cache, no shared state)
                    fresh = CHECKS[kind](inp)
                    if fresh is None:
                        st.add_extra('mismatch_only_with_reused_structure')
                        continue
                    if st.failure is None:
                        st.failure = fresh
                    return
                st.bump(kind if kind != 'law' else 'law ' + d['law'].split('-')[0])
            # non-triviality measured on the cache: answers that are proper subsets
            proper = sum(1 for v in env.cache.values() if v[0] == 'set' and v[1] not in (0, env.full))
            st.nontrivial += proper
            st.add_extra('modelcheck_calls', len(env.cache))
            if idx % 37 == 0 and work:
                st.sample(dict(work[idx % len(work)][1], K=K, kind=work[idx % len(work)][0]),
                          cls='n%d-%s' % (n, work[idx % len(work)][0]))


def random_shard(st, shard, nshards, payload):
    from hypothesis import strategies as hs
    names = sorted(LAWS)

    @hs.composite
    def cases(draw):
        K = draw(km.st_kripke(1, 5))
        kind = draw(hs.sampled_from(['law', 'law', 'bool', 'cross', 'cross_edit', 'overload']))
        base = {'K': K, 'naming': draw(hs.sampled_from(NAMINGS)), 'how': draw(hs.integers(0, 5)), 'kind': kind}
        if kind == 'law':
            name = draw(hs.sampled_from(names))
            arity, family, _ = LAWS[name]
            sub = {'CTL': fm.st_formula('ctl', max_depth=2),
                   'LTL': fm.st_formula('ltl_path', max_depth=2, max_temporal=1),
                   'STARPATH': fm.st_formula('ctls_path', max_depth=3, max_temporal=2)}[family]
            base.update(law=name, f=draw(sub))
            if arity == 2:
                base['g'] = draw(sub)
        elif kind == 'bool':
            fam = draw(hs.sampled_from(['CTL', 'LTL', 'STAR']))
            sub = {'CTL': fm.st_formula('ctl', max_depth=3),
                   'LTL': fm.st_formula('ltl_path', max_depth=2, max_temporal=1),
                   'STAR': fm.st_formula('ctls_state', max_depth=3, max_temporal=2)}[fam]
            base.update(family=fam, f=draw(sub), g=draw(sub))
        elif kind == 'overload':
            sub = fm.st_formula('ctl', max_depth=2)
            base.update(f=draw(sub), g=draw(sub), h=draw(sub))
        elif kind == 'cross_edit':
            sh = shared_fragment()
            base['f'] = sh[draw(hs.integers(0, len(sh) - 1))]
            if draw(hs.booleans()):
                base['f2'] = sh[draw(hs.integers(0, len(sh) - 1))]
            ed = hs.one_of(hs.tuples(hs.just('label'), hs.integers(0, 4), hs.sampled_from(['p', 'q'])).map(list),
                           hs.just(['relabel']),
                           hs.tuples(hs.just('edge'), hs.integers(0, 4), hs.integers(0, 4)).map(list))
            base['edits'] = draw(hs.lists(ed, min_size=1, max_size=3))
        else:
            which = draw(hs.sampled_from(['ctl', 'ltl', 'both']))
            if which == 'ctl':
                base['f'] = draw(fm.st_formula('ctl', max_depth=3))
            elif which == 'ltl':
                base['f'] = ('A', draw(fm.st_formula('ltl_path', max_depth=3, max_temporal=3)))
            else:
                o = draw(hs.sampled_from(['X', 'F', 'G', 'U', 'R']))
                pl = fm.st_formula('pl', max_depth=2)
                base['f'] = ('A', (o, draw(pl), draw(pl)) if o in 'UR' else (o, draw(pl)))
        return base

    def body(inp):
        kind = inp['kind']
        env = Env(inp['K'], inp['naming'], inp['how'])
        if kind == 'law':
            f = law_on(env, inp)
        elif kind == 'bool':
            f = bool_on(env, inp)
        elif kind == 'overload':
            f = check_overload(inp)
        elif kind == 'cross_edit':
            f = check_cross_edit(inp)
        else:
            f = cross_on(env, inp)
        nt = any(v[0] == 'set' and v[1] not in (0, env.full) for v in env.cache.values())
        st.random_case(inp, nt)
        st.bump('random ' + kind)
        if nt:
            st.sample(inp, cls='random-%s-%s' % (kind, inp.get('law', inp.get('family', ''))))
        if f is not None:
            f = CHECKS[kind](inp) or f
        return f

    f = core.hyp_run(payload['seed'] * 1000 + shard, cases(), body, payload['n'])
    if f is not None:
        st.failure = f


EDIT_SCRIPTS = [[['label', 0, 'p']], [['label', 1, 'q'], ['label', 0, 'p']], [['relabel']], [['edge', 0, 1]],
                [['edge', 1, 0], ['label', 1, 'p']], [['label', 0, 'q'], ['relabel'], ['edge', 1, 1]]]


def edit_shard(st, shard, nshards, payload):
    """Systematic: ask, let the caller edit the structure object, ask again (shared fragment, all checkers)."""
    sh = shared_fragment()
    i = -1
    for n in payload['ns']:
        for j, K in enumerate(km.scope(n)):
            if j % payload['k_stride']:
                continue
            for fi, f in enumerate(sh):
                for ei, script in enumerate(EDIT_SCRIPTS):
                    i += 1
                    if i % nshards != shard or (fi + ei + j) % payload['f_stride']:
                        continue
                    inp = {'K': K, 'f': f, 'f2': sh[(fi * 7 + ei) % len(sh)], 'edits': script,
                           'naming': NAMINGS[j % len(NAMINGS)], 'how': j % 6}
                    st.evaluations += 1
                    st.nontrivial += 1
                    st.bump('cross_edit: %s' % '+'.join(e[0] for e in script))
                    if i % 1999 == 0:
                        st.sample(inp, cls='cross_edit-n%d' % n)
                    r = check_cross_edit(inp)
                    if r is not None:
                        if st.failure is None:
                            st.failure = r
                        return


def overload_shard(st, shard, nshards, payload):
    ops = ctl_small()
    i = -1
    for n in payload['ns']:
        for j, K in enumerate(km.scope(n)):
            if j % payload['k_stride']:
                continue
            for x in range(0, len(ops) ** 3, payload['f_stride']):
                i += 1
                if i % nshards != shard:
                    continue
                f, g, h = ops[x % len(ops)], ops[(x // len(ops)) % len(ops)], ops[(x // len(ops) ** 2) % len(ops)]
                inp = {'K': K, 'f': f, 'g': g, 'h': h, 'naming': NAMINGS[j % len(NAMINGS)], 'how': j % 6}
                st.evaluations += 1
                st.nontrivial += 1
                st.bump('overload')
                if i % 2999 == 0:
                    st.sample(inp, cls='overload-n%d' % n)
                r = check_overload(inp)
                if r is not None:
                    if st.failure is None:
                        st.failure = r
                    return


def run(ctx):
    ctx.rule = ('differential and metamorphic only.  cross: every formula that is a state formula of '
                'several logics is given to each of their checkers as own-language object, CTL* '
                'object, library str and independent text (sibling-language objects may raise '
                'TypeError, a different set is a violation): all answers must be one set.  bool: '
                'not/and/or/-->/n-ary laws on CTL and CTL* state formulas through CTL and CTLS, LTL: '
                'A(g and h) = A g & A h, A(g or h) >= A g | A h.  law: the 10 CTL dualities, 8 '
                'fixpoint expansions (E/A x F,G,U,R), CTL* A g = not E not g for arbitrary path g, LTL '
                'expansions of G,F,U,R, double negation, F as U, G as R; each law is evaluated by '
                'every checker of its family and both sides must give equal sets.  Structures: S(1), '
                'S(2) exhaustively (strided in the quick tier), S(3) strided, random <= 5 states.  cross_edit: the caller edits the '
                'structure OBJECT between questions (labels toggled in place, replace_labelling_function, add_edge) and all entry points '
                'must again agree, for the structure as it is now.  '
                'evaluations = law instances checked; distinct_nontrivial = modelcheck answers that '
                'were proper non-empty subsets of the states inside those instances (cache entries, '
                'distinct by construction per structure).')
    if ctx.thorough:
        payload = {'ns': [1, 2, 3], 'k_stride': 1, 'f_stride': 2, 'g_stride': 2, 'ltl_leaves': 4,
                   'star_k': 2, 'cross_k': 2, 'cross_stride': 11}
        payload3 = None
        ctx.scopes = ['S(1)+S(2) x every 2nd row and column of the law tables (CTL k<=1 operands), S(3) see next',
                      'every 40th of S(3) x strided law tables']
    else:
        payload = {'ns': [1, 2], 'k_stride': 4, 'f_stride': 7, 'g_stride': 4, 'ltl_leaves': 2,
                   'star_k': 1, 'cross_k': 1, 'cross_stride': 1}
        ctx.scopes = ['S(1) + every 4th of S(2) x strided law tables']
    ctx.exhaustive = True
    ctx.assumptions = ['no reference implementation is consulted', 'sibling-language objects may be refused with TypeError (DESIGN 5.3)']
    if ctx.thorough:
        f = core.run_sharded(ctx, enum_shard, dict(payload, ns=[1, 2]))
        if f is None:
            f = core.run_sharded(ctx, enum_shard, {'ns': [3], 'k_stride': 40, 'f_stride': 5, 'g_stride': 4,
                                                   'ltl_leaves': 2, 'star_k': 1, 'cross_k': 1, 'cross_stride': 2})
    else:
        f = core.run_sharded(ctx, enum_shard, payload)
        if f is None:
            ctx.scopes.append('every 1373rd of S(3) x strided law tables')
            f = core.run_sharded(ctx, enum_shard, {'ns': [3], 'k_stride': 1373, 'f_stride': 11, 'g_stride': 6,
                                                   'ltl_leaves': 2, 'star_k': 1, 'cross_k': 1, 'cross_stride': 5})
    if f is None:
        # the shared fragment on larger structures: CTL (fixpoints) against LTL (tableau) against CTL*
        for (n_, stride_) in ctx.pick([(3, 401), (4, 400009), (5, 1000000007)], [(3, 3), (4, 4001), (5, 4000037)]):
            ctx.scopes.append('every %dth of S(%d) x %d shared-fragment formulas through all three checkers' % (
                stride_, n_, len(shared_fragment())))
            f = core.run_sharded(ctx, enum_shard, {'ns': [n_], 'k_stride': stride_, 'shared_only': True})
            if f is not None:
                break
    if f is None:
        ep = {'ns': [1, 2], 'k_stride': ctx.pick(5, 1), 'f_stride': ctx.pick(5, 2)}
        ctx.scopes.append('cross_edit: S(1) + every %s of S(2) x shared-fragment formulas x 6 edit scripts (labels toggled in place, '
                          'replace_labelling_function, add_edge), every %s combination: all checkers asked before and after each edit of the SAME structure object'
                          % (('%dth' % ep['k_stride']) if ep['k_stride'] > 1 else 'one', ('%dth' % ep['f_stride'])))
        f = core.run_sharded(ctx, edit_shard, ep)
    if f is None:
        op_ = {'ns': [1, 2], 'k_stride': ctx.pick(7, 1), 'f_stride': ctx.pick(37, 5)}
        ctx.scopes.append('overload: formulas assembled with & | ~ from re-used named objects (inv = f & g; inv & h; inv | h; h & inv; ~inv ...) over '
                          'operand triples of the CTL law table, checked after all were built, against the constructor-built formulas')
        f = core.run_sharded(ctx, overload_shard, op_)
    if f is not None:
        ctx.violation(f)
        return
    shards, n = ctx.pick((16, 50), (16, 600))
    f = core.run_sharded(ctx, random_shard, {'seed': ctx.seed, 'n': n}, nshards=shards)
    if f is not None:
        ctx.violation(f)
