"""C14 - Kripke structures are always total, fully labelled, and copy faithfully."""
import itertools

from .. import core
from ..core import Failure
from .. import graphs as G

OUT = 'outsider'
LABELS = [[], ['p'], ['p', 'q'], [7, 'p'], [('t', 1)]]


def build_args(inp):
    """(S, S0, R, L) for a case.  States are named through the naming; 'out' = non-state."""
    nm = G.NAMINGS[inp['naming']]

    def name(x):
        return OUT if x == 'out' else nm(x)

    S = None if inp['S'] is None else [name(x) for x in inp['S']]
    S0 = None if inp['S0'] is None else [name(x) for x in inp['S0']]
    R = [(name(a), name(b)) for a, b in inp['R']]
    L = None
    if inp['L'] is not None:
        L = {}
        for k, (v, typ) in inp['L']:
            vals = list(LABELS[v])
            # a label set may come as any collection of atomic propositions
            L[name(k)] = {'set': set, 'tuple': tuple, 'list': list, 'frozenset': frozenset,
                          'keys': lambda v: dict((x, None) for x in v).keys(),
                          'deque': lambda v: __import__('collections').deque(v)}[typ](vals)
    if L is not None and inp.get('ltype'):
        import collections
        if inp['ltype'] == 'ordered':
            L = collections.OrderedDict(sorted(L.items(), key=lambda kv: repr(kv[0]), reverse=True))
        elif inp['ltype'] == 'default':
            d = collections.defaultdict(set)
            d.update(L)
            L = d
    # a container may mention a state / a transition more than once
    dup = inp.get('dup')
    if dup in ('S', 'all') and S:
        S = S + [name(x) for x in reversed(inp['S'])]
    if dup in ('S0', 'all') and S0:
        S0 = S0 + [name(x) for x in inp['S0'][:2]]
    if dup in ('R', 'all') and R:
        R = R + [(name(a), name(b)) for a, b in inp['R'][::2]]
    ct = inp.get('ctype', 'list')
    if ct == 'set':
        S = None if S is None else set(S)
        S0 = None if S0 is None else set(S0)
        R = set(R)
    elif ct == 'tuple':
        S = None if S is None else tuple(S)
        S0 = None if S0 is None else tuple(S0)
        R = tuple(R)
    return S, S0, R, L, name


def _txt(x):
    return sorted(map(repr, x))


def check_kripke(inp):
    """Constructor contract, labels/next of non-states, clone, get_substructure(V)."""
    from pyModelChecking.kripke import Kripke
    S, S0, R, L, name = build_args(inp)
    nodes = set(S or []) | set(x for e in R for x in e)
    has_succ = set(a for a, _ in R)
    total = nodes <= has_succ
    try:
        K = Kripke(S=S, S0=S0, R=R, L=L)
        built = True
    except RuntimeError:
        built = False
    except Exception as e:
        return Failure('kripke', inp, 'a structure or RuntimeError',
                       'constructor raised %s: %s' % (type(e).__name__, e))
    if built != total:
        return Failure('kripke', inp, 'constructor %s' % ('succeeds' if total else 'raises RuntimeError'),
                       'constructor %s' % ('succeeded' if built else 'raised RuntimeError'),
                       'nodes without successor: %s' % _txt(nodes - has_succ))
    if not built:
        return None
    try:
        f = _inspect(inp, K, nodes, set(R), L or {}, set(S0 or []) & nodes, 'constructed')
        if f is not None:
            return f
        # non-states
        # non-states of many Python types (a tuple is what '%' formatting takes for an argument list;
        # braces and percent signs are what format strings choke on)
        for x in [OUT + '!', ('nope',), -99, ('no', 'pe'), (), (1, 2, 3), frozenset([OUT]), 3.5, 'a%sb{}', '{0}', '%d']:
            if x in nodes:
                continue
            for meth in ('labels', 'next'):
                try:
                    getattr(K, meth)(x)
                    return Failure('kripke', inp, '%s(non-state) raises RuntimeError' % meth,
                                   '%s(%r) returned' % (meth, x))
                except RuntimeError:
                    pass
                except Exception as e:
                    return Failure('kripke', inp, '%s(non-state) raises RuntimeError' % meth,
                                   'raised %s' % type(e).__name__)
        expL = dict((s, set(L[s]) if (L and s in L) else set()) for s in nodes)
        expS0 = set(S0 or []) & nodes
        # clone
        C = K.clone()
        f = _inspect(inp, C, nodes, set(R), expL, expS0, 'clone')
        if f is not None:
            return f
        for s in nodes:
            if C.labels(s) is K.labels(s):
                return Failure('kripke', inp, 'clone shares no label set', 'labels(%r) shared' % (s,))
        for s in nodes:
            C.labels(s).add('mut-clone')
        f = _inspect(inp, K, nodes, set(R), expL, expS0, 'original after mutating the clone')
        if f is not None:
            return f
        C2 = K.clone()
        for s in nodes:
            K.labels(s).add('mut-orig')
        f = _inspect(inp, C2, nodes, set(R), expL, expS0, 'clone after mutating the original')
        if f is not None:
            return f
        for s in nodes:
            K.labels(s).discard('mut-orig')
        # a clone of a clone is still a faithful, independent copy
        f = _inspect(inp, K.clone().clone(), nodes, set(R), expL, expS0, 'clone of a clone')
        if f is not None:
            return f
        # substructures
        universe = sorted(nodes, key=repr) + [OUT + '?']
        Vs = inp.get('V')
        if Vs is None:
            Vlist = [set(c) for c in G.all_subsets(universe)]
        else:
            Vlist = [set(name(x) if x != 'out?' else OUT + '?' for x in Vs)]
        for V in Vlist:
            f = _check_sub(inp, K, V, nodes, set(R), expL, expS0)
            if f is not None:
                return f
        # beyond the constructor: the documented replace_labelling_function() may hand the structure
        # a dict with keys that are not states (as the constructor's L may); copies must still be
        # faithful and get_substructure must still ignore non-states in V
        if inp.get('relabel', True) and nodes:
            K2 = K.clone()
            ghost = OUT + '-ghost'
            newL = dict((s, set(['r', 7]) if i % 2 else set()) for i, s in enumerate(sorted(nodes, key=repr)))
            newL[ghost] = set(['p'])
            dropped = sorted(nodes, key=repr)[-1]
            del newL[dropped]                      # a state without an entry gets the empty set
            K2.replace_labelling_function(dict((k, set(v)) for k, v in newL.items()))
            expL2 = dict((s, set(newL.get(s, set()))) for s in nodes)
            f = _inspect(inp, K2, nodes, set(R), expL2, expS0, 'after replace_labelling_function')
            if f is None:
                f = _inspect(inp, K2.clone(), nodes, set(R), expL2, expS0, 'clone after replace_labelling_function')
            if f is not None:
                return f
            for V in [set(nodes) | set([ghost]), set(list(sorted(nodes, key=repr))[:1]) | set([ghost]), set([ghost])]:
                f = _check_sub(dict(inp, after='replace_labelling_function'), K2, V, nodes, set(R), expL2, expS0)
                if f is not None:
                    return f
        # a structure that GREW after construction (add_edge between its states) and one that the
        # model checkers have been run on: copies are taken of the structure as it is NOW
        if inp.get('grow', True) and nodes:
            order = sorted(nodes, key=repr)
            K3 = K.clone()
            f = _check_sub(dict(inp, after='clone, before add_edge'), K3, set(order[:2]), nodes, set(R), expL, expS0)
            if f is not None:
                return f
            K3.clone()
            missing = [(a, b) for a in order for b in order if (a, b) not in set(R)]
            added = missing[::2][:3]
            for (a, b) in added:
                K3.add_edge(a, b)
            R3 = set(R) | set(added)
            f = _inspect(inp, K3, nodes, R3, expL, expS0, 'after add_edge%r' % (added,))
            if f is None:
                f = _inspect(inp, K3.clone(), nodes, R3, expL, expS0, 'clone after add_edge%r' % (added,))
            if f is None:
                f = _inspect(inp, K, nodes, set(R), expL, expS0, 'original after add_edge on its clone')
            if f is not None:
                return f
            for V in ([set(c) for c in G.all_subsets(order)] if len(order) <= 3 else [set(order[:2]), set(order[1:]), set(order)]):
                f = _check_sub(dict(inp, after='add_edge%r' % (added,)), K3, V, nodes, R3, expL, expS0)
                if f is not None:
                    return f
        if inp.get('grow', True) and nodes and (len(R) + 2 * len(nodes)) % 4 == 0:
            order = sorted(nodes, key=repr)
            fs = _formulas()
            with core.quiet():
                for call in (lambda: fs[0][0].modelcheck(K, fs[0][1]), lambda: fs[1][0].modelcheck(K, fs[1][1]),
                             lambda: fs[2][0].modelcheck(K, fs[2][1]),
                             lambda: fs[0][0].modelcheck(K, fs[3][1], F=[set(order[:1])]),
                             lambda: K.get_fair_states([set(order[:1])])):
                    try:
                        call()
                    except Exception:
                        pass                     # what the checkers answer is not this property's business
            f = _inspect(inp, K, nodes, set(R), expL, expS0, 'original after model checking')
            if f is None:
                f = _inspect(inp, K.clone(), nodes, set(R), expL, expS0, 'clone after model checking')
            if f is not None:
                return f
            for V in [set(order[:2]), set(order)]:
                f = _check_sub(dict(inp, after='model checking'), K, V, nodes, set(R), expL, expS0)
                if f is not None:
                    return f
    except core.HarnessError:
        raise
    except Exception as e:
        return Failure('kripke', inp, 'no exception', 'raised %s: %s' % (type(e).__name__, e))
    return None


_FORMULAS = []


def _formulas():
    if not _FORMULAS:
        from pyModelChecking import CTL, LTL, CTLS
        _FORMULAS.extend([(CTL, CTL.EG(CTL.Not('p'))), (CTLS, CTLS.A(CTLS.F(CTLS.G('p')))),
                          (LTL, LTL.A(LTL.U('p', 'q'))), (CTL, CTL.AG('p'))])
    return _FORMULAS


def _inspect(inp, K, nodes, R, L, S0, what):
    if set(K.states()) != nodes or len(list(K.states())) != len(nodes):
        return Failure('kripke', inp, _txt(nodes), _txt(K.states()), what + ': states differ')
    tr = list(K.transitions())
    if set(tr) != R or len(tr) != len(R):
        return Failure('kripke', inp, _txt(R), _txt(tr), what + ': transitions differ')
    for s in nodes:
        lab = K.labels(s)
        if not isinstance(lab, set):
            return Failure('kripke', inp, 'a set', type(lab).__name__, what + ': labels(%r) is not a set' % (s,))
        exp = set(L[s]) if s in L else set()
        if lab != exp:
            return Failure('kripke', inp, _txt(exp), _txt(lab), what + ': labels(%r) differ' % (s,))
        if set(K.next(s)) != set(b for a, b in R if a == s):
            return Failure('kripke', inp, _txt(b for a, b in R if a == s), _txt(K.next(s)),
                           what + ': next(%r) differs' % (s,))
        if not K.next(s):
            return Failure('kripke', inp, 'every state has a successor', 'next(%r) is empty' % (s,), what)
    held = [K.labels(s) for s in nodes]              # keep them alive: ids of dead temporaries collide
    if len(set(map(id, held))) != len(held):
        return Failure('kripke', inp, 'each state has its own label set', 'two states share one set object', what)
    if set(K.S0) != S0:
        return Failure('kripke', inp, _txt(S0), _txt(K.S0), what + ': initial states differ')
    if not set(K.S0) <= set(K.states()):
        return Failure('kripke', inp, 'S0 subset of states', _txt(K.S0), what)
    return None


def _check_sub(inp, K, V, nodes, R, L, S0):
    from pyModelChecking.kripke import Kripke
    keep = V & nodes
    indR = set((a, b) for a, b in R if a in keep and b in keep)
    total = keep <= set(a for a, _ in indR)
    rec = dict(inp, V_used=_txt(V))
    try:
        # V is a set; a frozenset is one too
        sub = K.get_substructure(frozenset(V) if len(V) % 2 else set(V))
        built = True
    except RuntimeError:
        built = False
    if built != total:
        return Failure('kripke', rec, 'get_substructure %s' % ('succeeds' if total else 'raises RuntimeError'),
                       'it %s' % ('succeeded' if built else 'raised RuntimeError'))
    if not built:
        return None
    if not isinstance(sub, Kripke):
        return Failure('kripke', rec, 'a Kripke', type(sub).__name__)
    f = _inspect(rec, sub, keep, indR, dict((s, L[s]) for s in keep), S0 & keep, 'substructure')
    if f is not None:
        return f
    for s in keep:
        if sub.labels(s) is K.labels(s):
            return Failure('kripke', rec, 'substructure shares no label set', 'labels(%r) shared' % (s,))
    # a substructure of the substructure (same V): identical again
    try:
        sub2 = sub.get_substructure(set(keep))
    except RuntimeError:
        return Failure('kripke', rec, 'substructure of a substructure exists', 'RuntimeError')
    f = _inspect(rec, sub2, keep, indR, dict((s, L[s]) for s in keep), S0 & keep, 'substructure of the substructure')
    if f is not None:
        return f
    # the caller goes on using the substructure: a transition added to it is not added to K
    order = sorted(keep, key=repr)
    miss = [(a, b) for a in order for b in order if (a, b) not in indR]
    if miss:
        sub.add_edge(*miss[0])
        sub.labels(order[0]).add('mut-sub')
        f = _inspect(rec, sub2, keep, indR, dict((s, L[s]) for s in keep), S0 & keep,
                     'substructure of the substructure after add_edge%r on the substructure' % (miss[0],))
        if f is not None:
            return f
    # the original is untouched
    return _inspect(rec, K, nodes, R, L, S0, 'original after get_substructure' + (' and add_edge%r on the result' % (miss[0],) if miss else ''))


CHECKS = {'kripke': check_kripke}


def replay(ctx, rec):
    inp = dict(rec['input'])
    inp.pop('V_used', None)
    inp.pop('after', None)
    return check_kripke(inp)


def case_iter(n):
    """All argument combinations over universe 0..n-1 (+ an outsider), deterministic."""
    uni = list(range(n))
    rel_pairs = [(a, b) for a in uni for b in uni]
    S_opts = [None] + [list(c) for c in G.all_subsets(uni)]
    for mask in range(1 << len(rel_pairs)):
        R = [rel_pairs[i] for i in range(len(rel_pairs)) if (mask >> i) & 1]
        for si, S in enumerate(S_opts):
            # S0: none, empty, subset with outsider, everything
            S0_opts = [None, [], [uni[0], 'out'] if uni else ['out'], uni + ['out']]
            L_opts = [None, [],
                      [(u, ((u + mask) % len(LABELS), ('set', 'list', 'tuple', 'frozenset', 'keys', 'deque')[(u + si + mask) % 6])) for u in uni],
                      [(uni[-1] if uni else 'out', (1, 'list')), ('out', (2, 'set'))]]
            for zi, S0 in enumerate(S0_opts):
                for li, Lc in enumerate(L_opts):
                    if (zi + li + mask + si) % 2 and n >= 3:
                        continue        # halve the n=3 product deterministically
                    yield {'n': n, 'S': S, 'S0': S0, 'R': [list(e) for e in R], 'L': Lc,
                           'naming': ('int', 'str', 'tuple', 'mixed', 'revint', 'opaque', 'numeq')[(mask + si) % 7],
                           'ctype': ('list', 'set', 'tuple')[(mask + zi) % 3],
                           'dup': (None, 'S', 'R', 'all', 'S0', None, 'all')[(mask + si + 2 * zi + li) % 7],
                           'ltype': (None, 'ordered', 'default')[(mask + li + si) % 3]}


def is_nontrivial(inp):
    """>= 1 state whose non-empty label set differs from its successor set."""
    if not inp['L']:
        return False
    succ = {}
    for a, b in inp['R']:
        succ.setdefault(a, set()).add(b)
    for k, (v, _) in inp['L']:
        if k != 'out' and LABELS[v] and set(LABELS[v]) != succ.get(k, set()):
            return True
    return False


def enum_shard(st, shard, nshards, payload):
    idx = -1
    for n in payload['ns']:
        for inp in case_iter(n):
            idx += 1
            if idx % nshards != shard:
                continue
            if payload.get('stride', 1) > 1 and n >= 3 and (idx // nshards) % payload['stride']:
                continue
            st.evaluations += 1
            nodes = set(inp['S'] or []) | set(x for e in inp['R'] for x in e)
            total = nodes <= set(a for a, _ in inp['R'])
            st.bump('total' if total else 'non-total (RuntimeError expected)')
            if total and is_nontrivial(inp):
                st.nontrivial += 1
                st.sample(inp, cls='n%d-%s' % (n, inp['naming']))
                st.add_extra('substructure_calls', 1 << (len(nodes) + 1))
            f = check_kripke(inp)
            if f is not None and st.failure is None:
                st.failure = f
                return


def run(ctx):
    from hypothesis import strategies as hs
    ctx.rule = ('every relation R over a universe of <= 3 candidate states x S in {None, every '
                'subset} x S0 in {None, [], [s, outsider], all+outsider} x L in {None, {}, every '
                'state labelled (set/list/tuple values, non-string labels), only one state + a '
                'non-state labelled}, under five state namings and three container types; for '
                'every structure that is built: labels/next of non-states, clone() with '
                'mutation on both sides, get_substructure(V) for EVERY V subset of states+outsider. '
                'Random: 4-5 states.  Oracle: constructor contract and the induced-substructure '
                'definition computed from the arguments.  Non-trivial = built structure with a '
                'state whose non-empty label set differs from its successor set.')
    ctx.scopes = ['universe <= 2 states: complete product', 'universe 3 states: every other combination'
                  if ctx.thorough else 'universe 3 states: every 6th combination']
    ctx.exhaustive = True
    f = core.run_sharded(ctx, enum_shard, {'ns': [0, 1, 2, 3], 'stride': ctx.pick(3, 1)})
    if f is not None:
        ctx.violation(f)
        return

    f = core.run_random(ctx, random_shard, 3000, 30000)
    if f is not None:
        ctx.violation(f)


def random_shard(st, shard, nshards, payload):
    from hypothesis import strategies as hs
    @hs.composite
    def cases(draw):
        n = draw(hs.integers(4, 7))
        uni = list(range(n))
        R = []
        for a in uni:
            # mostly total
            m = draw(hs.integers(0 if draw(hs.integers(0, 9)) == 0 else 1, (1 << n) - 1))
            R += [[a, b] for b in uni if (m >> b) & 1]
        S = draw(hs.one_of(hs.none(), hs.lists(hs.sampled_from(uni), unique=True)))
        S0 = draw(hs.one_of(hs.none(), hs.lists(hs.sampled_from(uni + ['out']), unique=True)))
        Lk = draw(hs.lists(hs.sampled_from(uni + ['out']), unique=True))
        L = [(k, (draw(hs.integers(0, len(LABELS) - 1)), draw(hs.sampled_from(['set', 'list', 'tuple', 'frozenset', 'keys', 'deque']))))
             for k in Lk]
        V = draw(hs.lists(hs.sampled_from(uni + ['out?']), unique=True))
        return {'n': n, 'S': S, 'S0': S0, 'R': R, 'L': draw(hs.sampled_from([None, L, L, L])),
                'naming': draw(hs.sampled_from(['int', 'str', 'tuple', 'mixed', 'revint', 'opaque', 'numeq'])),
                'dup': draw(hs.sampled_from([None, None, 'S', 'R', 'S0', 'all'])),
                'ctype': draw(hs.sampled_from(['list', 'set', 'tuple'])), 'V': V,
                'ltype': draw(hs.sampled_from([None, 'ordered', 'default']))}


    def body(inp):
        nodes = set(inp['S'] or []) | set(x for e in inp['R'] for x in e)
        total = nodes <= set(a for a, _ in inp['R'])
        st.random_case(inp, total and is_nontrivial(inp))
        st.bump('random total' if total else 'random non-total')
        return check_kripke(inp)

    f = core.hyp_run(payload['seed'] * 1000 + shard, cases(), body, payload['n'])
    if f is not None:
        st.failure = f
