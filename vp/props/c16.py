"""C16 - equal Boolean functions share one OBDD under every creation/GC history.

Hypothesis rule-based machine over a pool of OBDDs under two orderings that share the global
node table.  Every rule appends a concrete operation to an op-log and executes it through
`World.do`; failures are minimised by delta debugging over the op-log (DESIGN 3.5).
"""
import gc
import itertools

from .. import core, bdd
from ..core import Failure

VARSETS = [('a', 'b', 'c', 'd'), ('a', 'b', 'c', 'd', 'e'), ('x_1', 'Var', '_v', '\u00e9', 'T'),
           ('a' * 30, 'b', 'notx', 'lambda_'), ('p', 'q', 'r'),
           ('s0', 's1', 's2', 's3', 's4', 's5', 's6')]
SLOTS = ('v0', 'v1', 'v2', 'v3', 'v4', 'v5', 'v6')


def rename(e, names):
    """Expression over the slots v0..v4 -> expression over the machine's variable names."""
    if e[0] == 'v':
        return ('v', names[SLOTS.index(e[1]) % len(names)])
    if e[0] == 'c':
        return e
    return (e[0],) + tuple(rename(c, names) for c in e[1:])


def _lib():
    from pyModelChecking.BDD import OBDD, BDDNode
    return OBDD, BDDNode


class World(object):
    """Interpreter of op-logs.  Index arguments are taken modulo the pool size so that every
    sub-sequence of a log is itself a valid log."""

    def __init__(self, orders):
        self.orders = [list(o) for o in orders]
        self.vars = tuple(sorted(self.orders[0]))      # reference order of the truth tables
        self.nv = len(self.vars)
        self.full = bdd.tt_full(self.nv)
        self.pool = []          # entries [obdd, k, tt]
        self.held = []
        self.dropped = set()    # (k, tt) that were live and have been dropped
        self.flags = set()
        self.counts = {}

    def close(self):
        self.pool = []
        self.held = []
        self.bulk = []
        gc.collect()

    def _bump(self, k):
        self.counts[k] = self.counts.get(k, 0) + 1

    def _add(self, o, k, tt):
        if (k, tt) in self.dropped and tt not in (0, self.full):
            self.flags.add('re-created a function that had been dropped')
        self.pool.append([o, k, tt])

    def _drop(self, idx):
        o, k, tt = self.pool.pop(idx)
        if not any(e[1] == k and e[2] == tt for e in self.pool):
            self.dropped.add((k, tt))

    def do(self, op):
        OBDD, BDDNode = _lib()
        kind = op[0]
        self._bump(kind)
        n = len(self.pool)
        if kind == 'parse':
            _, k, expr, style = op
            expr = rename(bdd.from_json(expr), self.vars)
            o = OBDD(bdd.to_str(expr, style), list(self.orders[k]))
            self._add(o, k, bdd.eval_tt(expr, self.vars))
        elif kind == 'lambda':
            _, k, expr = op
            expr = rename(bdd.from_json(expr), self.vars)
            o = OBDD('lambda %s: %s' % (','.join(self.orders[k]), bdd.to_str(expr)))
            self._add(o, k, bdd.eval_tt(expr, self.vars))
        elif kind == 'gc':
            gc.collect()
        elif kind == 'recreate':
            # build again, from its minterm form, a function that was live and has been dropped
            cands = sorted(d for d in self.dropped if d[1] not in (0, self.full))
            if cands:
                k, tt = cands[op[1] % len(cands)]
                o = OBDD(bdd.to_str(bdd.minterm_expr(tt, self.vars)), list(self.orders[k]))
                self._add(o, k, tt)
        elif kind == 'unhold':
            self.held = []
        elif kind == 'bulk':
            # SIZE: many diagrams alive at once (random sums of products and products of sums), so that
            # popular nodes - the terminals, the last variables - have dozens to hundreds of parents
            _, count, seedv, k = op
            k %= len(self.orders)
            rnd = [seedv * 2654435761 % (1 << 32) or 1]

            def nxt(m):
                rnd[0] = (rnd[0] * 1103515245 + 12345) % (1 << 31)
                return (rnd[0] >> 8) % m
            made = []
            for c in range(count):
                terms = []
                for _t in range(2 + nxt(3)):
                    lits = []
                    for v in self.vars:
                        r_ = nxt(4)
                        if r_ == 0:
                            lits.append(('v', v))
                        elif r_ == 1:
                            lits.append(('not', ('v', v)))
                    if not lits:
                        lits = [('v', self.vars[nxt(self.nv)])]
                    terms.append(lits)
                sop = c % 2 == 0
                inner, outer = ('and', 'or') if sop else ('or', 'and')
                expr = (outer,) + tuple((inner,) + tuple(l) if len(l) > 1 else l[0] for l in terms) if len(terms) > 1 else \
                    ((inner,) + tuple(terms[0]) if len(terms[0]) > 1 else terms[0][0])
                o = OBDD(bdd.to_str(expr), list(self.orders[k]))
                tt = bdd.eval_tt(expr, self.vars)
                if c % 7 == 0 and bdd.walk_tt(o.root, self.vars) != tt:
                    raise AssertionError('a diagram of the bulk denotes another function')
                made.append((o, k, tt))
            self.bulk = getattr(self, 'bulk', []) + made
            # two of them join the pool, where the invariant compares them with everything else
            for (o, k_, tt) in made[:2]:
                self._add(o, k_, tt)
            self.flags.add('hundreds of diagrams alive at once' if len(self.bulk) >= 100 else 'dozens of diagrams alive at once')
        elif kind == 'unbulk':
            self.bulk = []
        elif kind == 'reject':
            # a FAILED call in the history: the root of a live diagram offered under the machine's other
            # ordering (refused with ValueError / RuntimeError unless the orderings agree on it), and the
            # h == node comparison that makes the same attempt; what is alive must not notice
            if self.pool:
                e = self.pool[op[1] % len(self.pool)]
                other = self.orders[1 - e[1]]
                for attempt in (lambda: OBDD(e[0].root, list(other)), lambda: OBDD(e[0].root, list(reversed(self.orders[e[1]]))),
                                lambda: e[0] == e[0].root, lambda: OBDD(e[0].root, list(other)[:1])):
                    try:
                        attempt()
                    except Exception:
                        pass
                self.flags.add('a refused constructor call on a live node')
        elif kind == 'churn':
            # a caller looking for a good ordering: the same small function under MANY other orderings
            # (permutations of the variables, then orderings with further variables in them), each
            # diagram checked and dropped at once; what is alive must not care
            _, count, which = op
            expr = bdd.minterm_expr((0x6A5D3B19F7E4C280 >> (which % 7)) & self.full or 1, self.vars)
            tt = bdd.eval_tt(expr, self.vars)
            text = bdd.to_str(expr)
            made = 0
            for perm in itertools.permutations(self.vars):
                if made >= count:
                    break
                if list(perm) in self.orders:
                    continue
                o = OBDD(text, list(perm))
                if bdd.walk_tt(o.root, self.vars) != tt:
                    raise AssertionError('diagram built under ordering %r denotes another function' % (perm,))
                made += 1
            extra = 0
            while made < count:
                order = list(self.vars) + ['w%d' % extra]
                order = order[extra % len(order):] + order[:extra % len(order)]
                o = OBDD(text, order)
                if bdd.walk_tt(o.root, self.vars) != tt:
                    raise AssertionError('diagram built under ordering %r denotes another function' % (order,))
                made += 1
                extra += 1
            o = None
            self.flags.add('many other orderings used in between' if count >= 100 else 'a few other orderings used in between')
        elif kind == 'printall':
            # print every live diagram as a root (printing must not influence later printing)
            for e in self.pool:
                str(e[0])
                str(e[0].root)
            for h in self.held:
                str(h)
        elif n == 0:
            return
        elif kind == 'bin':
            _, name, i, j = op
            a = self.pool[i % n]
            same = [e for e in self.pool if e[1] == a[1]]
            b = same[j % len(same)]
            if name == 'and':
                o, tt = a[0] & b[0], a[2] & b[2]
            elif name == 'or':
                o, tt = a[0] | b[0], a[2] | b[2]
            else:
                o, tt = a[0] ^ b[0], a[2] ^ b[2]
            self._add(o, a[1], tt)
        elif kind == 'node':
            # a diagram built directly from nodes (Shannon composition), not through apply
            _, i, j, vi, unchecked = op
            a = self.pool[i % n]
            same = [e for e in self.pool if e[1] == a[1]]
            b = same[j % len(same)]
            order = self.orders[a[1]]
            tops = [order.index(x[0].root.var) if not bdd.is_terminal(x[0].root) else len(order) for x in (a, b)]
            limit = min(tops)
            if limit > 0:
                var = order[vi % limit]
                # an equal but (where CPython allows) not identical str object, as a caller who
                # computes variable names at run time would pass
                label = (var + '#')[:-1] if vi % 2 else var
                node = BDDNode(label, a[0].root, b[0].root)
                o = OBDD(node, list(order), check_ordering=False) if unchecked else OBDD(node, list(order))
                vt = bdd.tt_var(self.vars.index(var), self.nv)
                self._add(o, a[1], (vt & b[2]) | (self.full & ~vt & a[2]))
                self.flags.add('diagram built directly from nodes')
        elif kind == 'shannon':
            # the same function again, bottom-up through BDDNode with run-time label strings
            a = self.pool[op[1] % n]
            node = bdd.shannon_build(BDDNode, a[2], self.vars, self.orders[a[1]], fresh=bool(op[2]))
            self._add(OBDD(node, list(self.orders[a[1]])), a[1], a[2])
            self.flags.add('diagram built directly from nodes')
        elif kind == 'inv':
            a = self.pool[op[1] % n]
            self._add(~a[0], a[1], self.full & ~a[2])
        elif kind == 'restrict':
            _, i, v, b = op
            a = self.pool[i % n]
            v %= self.nv
            self._add(a[0].restrict(self.vars[v], b), a[1], bdd.cofactor(a[2], v, bool(b), self.nv))
        elif kind == 'restr':
            a = self.pool[op[1] % n]
            self._add(OBDD(str(a[0].root), list(self.orders[a[1]])), a[1], a[2])
        elif kind == 'alias':
            a = self.pool[op[1] % n]
            self.pool.append([a[0], a[1], a[2]])
        elif kind == 'drop':
            self._drop(op[1] % n)
        elif kind == 'keep':
            keep = self.pool[op[1] % n]
            for idx in range(n - 1, -1, -1):
                if self.pool[idx] is not keep:
                    self._drop(idx)
        elif kind == 'hold':
            a = self.pool[op[1] % n]
            root = a[0].root
            if not bdd.is_terminal(root):
                ch = root.high if op[2] else root.low
                if not bdd.is_terminal(ch):
                    self.held.append(ch)
                    self.flags.add('inner node held while its OBDD was dropped')
            a = None
            self._drop(op[1] % n)
        else:
            raise core.HarnessError('unknown op %r' % (op,))

    def check(self):
        """None, or a description of the violated invariant (a string: no SUT objects)."""
        _, BDDNode = _lib()
        try:
            for e in self.pool:
                if bdd.walk_tt(e[0].root, self.vars) != e[2]:
                    return 'pool entry no longer denotes its function (table %d)' % e[2]
            for a, b in itertools.combinations(self.pool, 2):
                if a[1] != b[1]:
                    continue
                same_fn = a[2] == b[2]
                eq1 = (a[0] == b[0])
                eq2 = (b[0] == a[0])
                ident = a[0].root is b[0].root
                if same_fn and a[0] is not b[0]:
                    self.flags.add('two distinct OBDD objects with equal truth tables')
                ne1, ne2 = (a[0] != b[0]), (b[0] != a[0])
                if ne1 == same_fn or ne2 == same_fn:
                    return '!= says %s/%s for functions that are %s (tables %d, %d, ordering %s)' % (
                        ne1, ne2, 'equal' if same_fn else 'different', a[2], b[2], self.orders[a[1]])
                if eq1 != same_fn or eq2 != same_fn:
                    return '== says %s/%s for functions that are %s (tables %d, %d, ordering %s)' % (
                        eq1, eq2, 'equal' if same_fn else 'different', a[2], b[2], self.orders[a[1]])
                if ident != same_fn:
                    return 'roots are %s for functions that are %s (tables %d, %d, ordering %s)' % (
                        'identical' if ident else 'distinct', 'equal' if same_fn else 'different',
                        a[2], b[2], self.orders[a[1]])
            for e in self.pool:
                p = bdd.structure_problem(e[0].root, self.orders[e[1]])
                if p:
                    return p
            return bdd.unique_table_problem(BDDNode)
        except core.HarnessError:
            raise
        except Exception as ex:
            return 'raised %s: %s' % (type(ex).__name__, ex)


def table_is_clean():
    _, BDDNode = _lib()
    gc.collect()
    return all(bdd.is_terminal(x) for x in BDDNode.nodes())


def run_log(orders, log):
    """Replay an op-log outside Hypothesis; return (problem or None, index of failing op)."""
    if not table_is_clean():
        raise core.HarnessError('global node table is not empty before a replay')
    w = World(orders)
    problem = None
    at = None
    try:
        for i, op in enumerate(log):
            try:
                w.do(op)
            except core.HarnessError:
                raise
            except Exception as ex:
                problem = 'operation %r raised %s: %s' % (op, type(ex).__name__, ex)
                at = i
                break
            problem = w.check()
            if problem:
                at = i
                break
    finally:
        w.close()
    return problem, at


def check_history(inp):
    problem, at = run_log(inp['orders'], inp['log'])
    if problem:
        return Failure('history', inp, 'canonical diagrams after every step', problem,
                       'after operation #%s' % at)
    return None


def size_logs(nvars_list, seeds, count):
    """Deterministic histories with MANY diagrams alive at once over 7-10 variables, followed by every
    way of re-creating a function that is alive."""
    out = []
    for nv in nvars_list:
        vs = ['t%d' % i for i in range(nv)]
        for sd in seeds:
            order = vs[sd % nv:] + vs[:sd % nv]
            log = [['bulk', count, 1000 + sd, 0]]
            for i in range(4):
                log += [['restr', i], ['bin', 'and', i, i], ['bin', 'or', i, i], ['inv', i], ['inv', -1], ['shannon', i, 1],
                        ['lambda', 0, ['and', ['v', 'v0'], ['or', ['v', 'v%d' % (1 + i)], ['not', ['v', 'v%d' % (2 + i)]]]]],
                        ['parse', 0, ['or', ['v', 'v%d' % i], ['and', ['v', 'v%d' % (i + 1)], ['v', 'v%d' % (i + 2)]]], 'sym'],
                        ['parse', 0, ['or', ['v', 'v%d' % i], ['and', ['v', 'v%d' % (i + 1)], ['v', 'v%d' % (i + 2)]]], 'word']]
            log += [['reject', 0], ['restr', 0], ['reject', 1], ['inv', 1], ['inv', -1], ['gc'], ['printall'], ['churn', 140 + 20 * (sd % 7), sd], ['parse', 0, ['and', ['v', 'v0'], ['v', 'v1']], 'sym'],
                    ['bulk', count // 2, 2000 + sd, 0], ['restr', 0], ['inv', 1], ['inv', -1]]
            out.append({'orders': [order, list(reversed(order))], 'log': log})
    return out


def size_shard(st, shard, nshards, payload):
    for i, inp in enumerate(size_logs(payload['nvars'], payload['seeds'], payload['count'])):
        if i % nshards != shard:
            continue
        st.evaluations += len(inp['log'])
        st.nontrivial_digests.add(core.digest(inp['log'] + inp['orders']))
        st.bump('size histories (%d variables)' % len(inp['orders'][0]))
        f = check_history(inp)
        if f is not None:
            if st.failure is None:
                st.failure = f
            return


CHECKS = {'history': check_history}


def replay(ctx, rec):
    return check_history(rec['input'])


def ddmin(orders, log, budget=400):
    """Plain delta debugging on the op-log."""
    def fails(l):
        p, at = run_log(orders, l)
        return p is not None, at

    ok, at = fails(log)
    if not ok:
        return log
    log = log[:at + 1]
    n = 2
    runs = 0
    while len(log) >= 2 and runs < budget:
        chunk = max(1, len(log) // n)
        reduced = False
        for start in range(0, len(log), chunk):
            cand = log[:start] + log[start + chunk:]
            runs += 1
            f, at = fails(cand)
            if f:
                log = cand[:at + 1]
                n = max(n - 1, 2)
                reduced = True
                break
        if not reduced:
            if chunk == 1:
                break
            n = min(len(log), n * 2)
    return log


def machine_shard(st, shard, nshards, payload):
    """Run Hypothesis machines in this process with its own seed."""
    from hypothesis import strategies as hs, seed
    from hypothesis.stateful import RuleBasedStateMachine, rule, invariant, initialize, precondition, \
        run_state_machine_as_test

    exprs = bdd.st_expr(SLOTS, max_depth=3)
    idx = hs.integers(0, 7)
    found = {}
    varsets = {}
    totals = {'machines': 0, 'steps': 0}
    flagcount = {}
    opcount = {}
    nontrivial = set()

    class Machine(RuleBasedStateMachine):
        def __init__(self):
            super(Machine, self).__init__()
            if not table_is_clean():
                raise core.HarnessError('global node table not empty at the start of an example')
            self.world = None
            self.log = []
            self.orders = None

        @initialize(vs=hs.sampled_from(VARSETS), data=hs.data())
        def setup(self, vs, data):
            o1 = data.draw(hs.permutations(list(vs)))
            o2 = data.draw(hs.permutations(list(vs)))
            self.orders = [list(o1), list(o2)]
            self.world = World(self.orders)
            varsets[vs] = varsets.get(vs, 0) + 1

        def _do(self, op):
            self.log.append(op)
            try:
                self.world.do(op)
            except core.HarnessError:
                raise
            except Exception as ex:
                self._fail('operation %r raised %s: %s' % (op, type(ex).__name__, ex))

        def _fail(self, problem):
            found['case'] = {'orders': self.orders, 'log': list(self.log)}
            found['problem'] = problem
            self.world.close()
            raise AssertionError(problem)

        @rule(k=hs.integers(0, 1), e=exprs, style=hs.sampled_from(['sym', 'word', 'mixed']))
        def parse(self, k, e, style):
            self._do(['parse', k, e, style])

        @rule(k=hs.integers(0, 1), e=exprs)
        def parse_lambda(self, k, e):
            self._do(['lambda', k, e])

        @rule(name=hs.sampled_from(['and', 'or', 'xor']), i=idx, j=idx)
        def combine(self, name, i, j):
            self._do(['bin', name, i, j])

        @rule(i=idx, j=idx, vi=hs.integers(0, 4), unchecked=hs.booleans())
        def compose_from_nodes(self, i, j, vi, unchecked):
            self._do(['node', i, j, vi, unchecked])

        @rule(i=idx, fresh=hs.booleans())
        def rebuild_by_shannon_expansion(self, i, fresh):
            self._do(['shannon', i, fresh])

        @rule(i=idx)
        def invert(self, i):
            self._do(['inv', i])

        @rule(i=idx, v=hs.integers(0, 4), b=hs.sampled_from([0, 1, False, True]))
        def restrict(self, i, v, b):
            self._do(['restrict', i, v, b])

        @rule(i=idx)
        def rebuild_from_str(self, i):
            self._do(['restr', i])

        @rule(i=idx)
        def alias(self, i):
            self._do(['alias', i])

        @rule(i=idx)
        def drop(self, i):
            self._do(['drop', i])

        @rule(i=idx)
        def drop_all_but(self, i):
            self._do(['keep', i])

        @rule()
        def collect(self):
            self._do(['gc'])

        @rule(i=idx)
        def recreate_dropped(self, i):
            self._do(['recreate', i])

        @rule(i=idx, side=hs.booleans())
        def hold_node(self, i, side):
            self._do(['hold', i, side])

        @rule()
        def unhold(self):
            self._do(['unhold'])

        @rule()
        def print_everything(self):
            self._do(['printall'])

        @precondition(lambda self: self.world is not None and self.world.counts.get('bulk', 0) < 1 and
                      sum(map(ord, ''.join(self.orders[0] + self.orders[1]))) % 5 == 0)
        @rule(count=hs.sampled_from([40, 110, 110]), seedv=hs.integers(1, 10 ** 6), k=hs.integers(0, 1))
        def bulk_build(self, count, seedv, k):
            self._do(['bulk', count, seedv, k])

        @rule(i=idx)
        def refused_call(self, i):
            self._do(['reject', i])

        @rule()
        def bulk_drop(self):
            self._do(['unbulk'])

        @precondition(lambda self: self.world is not None and self.world.counts.get('churn', 0) < 1 and
                      sum(map(ord, ''.join(self.orders[0]))) % 2 == 0)
        @rule(count=hs.sampled_from([3, 30, 135, 135]), which=hs.integers(0, 6))
        def churn_orderings(self, count, which):
            self._do(['churn', count, which])

        @invariant()
        def canonical(self):
            if self.world is None:
                return
            totals['steps'] += 1
            p = self.world.check()
            if p:
                self._fail(p)

        def teardown(self):
            if self.world is not None:
                totals['machines'] += 1
                for f in self.world.flags:
                    flagcount[f] = flagcount.get(f, 0) + 1
                for k, v in self.world.counts.items():
                    opcount[k] = opcount.get(k, 0) + v
                if len(self.world.flags) >= 2 and 're-created a function that had been dropped' in self.world.flags:
                    nontrivial.add(core.digest(self.log))
                    if len(st.samples) < 3:
                        st.samples.append({'orders': self.orders, 'log': list(self.log)})
                self.world.close()

    sett = core.hyp_settings(payload['machines'], shrink=False,
                             stateful_step_count=payload['steps'])
    try:
        run_state_machine_as_test(seed(payload['seed'] * 64 + shard)(Machine), settings=sett)
    except core.HarnessError:
        raise
    except BaseException as ex:
        # AssertionError from _fail, or Hypothesis' Flaky/ExceptionGroup wrappers around it
        if 'case' not in found:
            raise core.HarnessError('machine crashed: %r' % (ex,))
    st.evaluations += totals['steps']
    st.nontrivial_digests |= nontrivial
    st.add_extra('machines', totals['machines'])
    for k, v in flagcount.items():
        st.bump('machines where: ' + k, v)
    for k, v in opcount.items():
        st.bump('op ' + k, v)
    for k, v in varsets.items():
        st.bump('machines over %d variables (%s..)' % (len(k), k[0][:6]), v)
    if 'case' in found:
        case = found['case']
        gc.collect()
        try:
            small = ddmin(case['orders'], case['log'])
            inp = {'orders': case['orders'], 'log': small}
            f = check_history(inp)
        except core.HarnessError:
            f = None
        if f is None:
            f = Failure('history', case, 'canonical diagrams after every step', found['problem'],
                        'not reproduced outside Hypothesis by the op-log interpreter')
        st.failure = f


def run(ctx):
    ctx.rule = ('Hypothesis rule-based machines; each draws a variable set (3-5 variables; plain, underscore/unicode, very '
                'long names) and two orderings of it sharing the '
                'global node table and runs up to N steps of parse (3 styles) / lambda parse / & | ^ '
                '/ ~ / restrict / print every live diagram / rebuild a pool entry by Shannon expansion through BDDNode with '
                'run-time label strings / Shannon composition directly from BDDNode objects (with and without check_ordering) / '
                'rebuild from str / alias / drop / drop-all-but-one / gc.collect / '
                'hold an inner node while dropping its OBDD / release held nodes / re-create a dropped '
                'function from its minterm form.  The model of each '
                'pool entry is a truth table (2^n bits) computed by the harness.  Invariant after every '
                'step: == and root identity coincide with truth-table equality for every pool pair '
                'of one ordering; every live node in BDDNode.nodes() has a unique (var, low, high), '
                'distinct children, one terminal per value; entries still denote their tables; '
                'diagrams ordered.  evaluations = invariant evaluations (steps); a machine is '
                'non-trivial if it re-created a function that had been dropped AND met one more '
                'stress condition (two distinct OBDD objects with equal tables, or a held inner '
                'node); distinct by digest of the op-log.')
    machines, steps, shards = ctx.pick((40, 40, 16), (400, 80, 16))
    ctx.scopes = ['%d machines x <= %d steps in each of %d processes' % (machines, steps, shards)]
    ctx.assumptions = ['CPython reference counting frees dropped nodes immediately; gc.collect() '
                       'placement is part of the generated history; no threads']
    f = core.run_sharded(ctx, machine_shard, {'machines': machines, 'steps': steps, 'seed': ctx.seed},
                         nshards=shards)
    if f is not None:
        ctx.violation(f)
        return
    sp = {'nvars': ctx.pick([8], [7, 8, 9, 10, 11]), 'seeds': ctx.pick([1, 2, 3, 4, 5, 6, 7, 8], list(range(1, 17))),
          'count': ctx.pick(120, 320)}
    ctx.scopes.append('size: deterministic histories with %d + %d random sums of products / products of sums alive at once over %s variables, '
                      'then every way of re-creating live functions (restr, f&f, f|f, ~~f, Shannon rebuild, lambda, parse)' % (
                          sp['count'], sp['count'] // 2, sp['nvars']))
    f = core.run_sharded(ctx, size_shard, sp)
    if f is not None:
        ctx.violation(f)
