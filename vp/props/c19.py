"""C19 - every well-formed query returns a fresh set of the structure's own states."""
from .. import core, fm, km, graphs
from ..core import Failure

STATE_POOLS = {
    'int': [0, 1, 2, 3, 4, 5],
    'negint': [-1, -2, 7, 100, 10 ** 12, 3],
    'str': ['', '0', 'A', 's1', 'true', 'p', 'a b'],
    'tuple': [(), (0,), (0, 1), ('a',), ((1,), 2), (0, 'x'), (frozenset([1]), (2, ('deep', None)))],
    'frozenset': [frozenset(), frozenset([1]), frozenset([1, 2]), frozenset(['p']),
                  frozenset([(1,)]), frozenset([0])],
    'mixed': [0, '0', (0,), frozenset([0]), 'zero', -1, ('x', 1), 2.5],
    'opaque': 'OPAQUE',
    'exotic': 'EXOTIC',
    'genlike': ['[E(X(p))]', 'fair', 'fair0', '[A(G(p))]', 'p', 'true', '[[E(X(p))](0)]'],
}
LABEL_POOL = ['p', 'q', 'r_1', 'p or q', 'not p', 'true', 'false', 'A', 'E', 'X', 'U', 'fair', 'fair0',
              '[E(X(p))]', '[A(G(p))]', '(p)', 'p and', '', ' ', 'AG', 'Xp', 7, 0, (1, 2), None, 3.5,
              frozenset(['p']), 'a"b', 'a\nb', 'a\\b', 'x' * 200, b'p', '{crit}', 'n{1}', '{}', 'done}', '{0}', 'a%sb', '%d', '$p', 'p;q', 'p,q']
ABSENT = ['absent', 'zz_9', 'not_in_K', 'Absent atom']
CHECKERS = ['CTL', 'LTL', 'CTLS']


def usable_as_atom(name):
    return isinstance(name, str) and '"' not in name and '\\' not in name and '\n' not in name


class _H0(object):
    """Value equality, constant hash: unequal states that collide in every dict/set."""

    def __init__(self, v):
        self.v = v

    def __hash__(self):
        return 0

    def __eq__(self, other):
        return isinstance(other, _H0) and self.v == other.v

    def __repr__(self):
        return '_H0(%r)' % (self.v,)


class _StrSub(str):
    pass


def _exotic_pool():
    import collections
    import decimal
    import enum
    import fractions
    Pt = collections.namedtuple('Pt', 'x y')
    Color = enum.Enum('Color', 'RED GREEN')
    return [b'x', Pt(1, 2), Color.RED, range(3), fractions.Fraction(1, 2), decimal.Decimal('1.5'), float('inf'),
            _StrSub('s'), _H0('a'), _H0('b'), tuple(range(50)), Color.GREEN, _H0(('c', 1)), b'']


_EXOTIC = _exotic_pool()


def pool_of(name):
    if name == 'exotic':
        return _EXOTIC
    if name == 'opaque':
        from ..graphs import _OPAQUE
        return _OPAQUE[:8]
    return STATE_POOLS[name]


def fresh(x):
    """An object equal to x but not identical to it (where Python allows): the same state is
    handed to S, R and L as three different objects, as a caller reading them from three
    sources would."""
    if type(x) is not str and isinstance(x, str):
        return x
    if isinstance(x, str):
        return ''.join(list(x)) if len(x) > 1 else x
    if type(x) is not tuple and isinstance(x, tuple):
        return x                           # namedtuples: hand out the same object
    if isinstance(x, tuple):
        if any(type(y).__name__ in ('Opaque', 'object') for y in x):
            return x                       # identity matters inside: hand out the very same object
        return tuple(fresh(y) for y in x) if x else x
    if isinstance(x, frozenset):
        return frozenset(list(x))
    if isinstance(x, int) and not isinstance(x, bool) and abs(x) > 256:
        return int(str(x))
    if isinstance(x, float):
        return float(repr(x))
    return x


def build(inp):
    """Library Kripke for a heterogeneous case: states from a pool, labels from LABEL_POOL."""
    from pyModelChecking.kripke import Kripke
    pool = pool_of(inp['pool'])
    n = inp['n']
    states = [pool[i] for i in inp['state_idx'][:n]]
    R = [(fresh(states[a]), fresh(states[b])) for a, b in inp['edges']]
    L = {}
    for i, lab in enumerate(inp['labels'][:n]):
        vals = [fresh(LABEL_POOL[k]) for k in lab]
        if vals or i % 2:
            L[fresh(states[i])] = set(vals) if i % 3 else list(vals)
    return Kripke(S=[fresh(x) for x in states], R=R, L=L), states


def formula_for(inp):
    """Tuple formula whose atom slots a0..a3 are filled with the case's atom names."""
    names = inp['atoms']
    m = dict(('a%d' % i, names[i % len(names)]) for i in range(4))
    t = fm.rename_atoms(fm.from_json(inp['f']), m)
    if inp.get('wide'):
        # wide rather than deep: a 24-ary disjunction/conjunction around the formula
        t = ('or' if inp['wide'] % 2 else 'and', t) + tuple(('ap', names[i % len(names)]) if i % 3 else ('not', ('ap', names[i % len(names)]))
                                                            for i in range(23))
    return t


def snapshot(kripke):
    s = km.snapshot(kripke)
    return s


def check_query(inp):
    checker = inp['checker']
    L = fm.lang(checker)
    try:
        kripke, states = build(inp)
    except Exception as e:
        raise core.HarnessError('cannot build structure %r: %s' % (inp, e))
    f = formula_for(inp)
    top = ('A', f) if checker == 'LTL' else f
    try:
        obj = fm.to_lib(top, L)
        arg = fm.to_text(top) if inp.get('text') else obj
    except Exception as e:
        raise core.HarnessError('cannot build formula %r: %s' % (top, e))
    before = snapshot(kripke)
    stateset = set(states)

    def one():
        with core.quiet():
            return L.modelcheck(kripke, arg)

    try:
        r1 = one()
    except Exception as e:
        return Failure('query', inp, 'a set of states', 'raised %s: %s' % (type(e).__name__, str(e)[:150]),
                       'first call')
    p = inspect(r1, stateset)
    if p:
        return Failure('query', inp, 'a set of K\'s states', p, 'first call')
    d = km.snapshot_diff(before, snapshot(kripke))
    if d:
        return Failure('query', inp, 'structure unchanged', d, 'after the first call')
    saved = set(r1)
    # the caller owns the result: mutate it
    how = inp.get('mutate', 0)
    if how == 0:
        r1.add('junk-state')
        r1.add(('more', 'junk'))
    elif how == 1:
        r1.clear()
    else:
        r1.symmetric_difference_update(stateset)
    try:
        r2 = one()
    except Exception as e:
        return Failure('query', inp, 'a set of states', 'raised %s: %s' % (type(e).__name__, str(e)[:150]),
                       'second call, after mutating the first result')
    p = inspect(r2, stateset)
    if p:
        return Failure('query', inp, 'a set of K\'s states', p, 'second call, after mutating the first result')
    if r2 is r1:
        return Failure('query', inp, 'a new set object per call', 'the same object was returned twice')
    if r2 != saved:
        return Failure('query', inp, sorted(map(repr, saved)), sorted(map(repr, r2)),
                       'mutating the returned set changed a later result')
    d = km.snapshot_diff(before, snapshot(kripke))
    if d:
        return Failure('query', inp, 'structure unchanged', d, 'after the second call')
    # the result must not alias anything inside K either
    for s in states:
        if r2 is kripke.labels(s) or r2 is kripke.next(s):
            return Failure('query', inp, 'a set owned by the caller', 'result aliases a set inside K')
    if r2 is kripke.S0:
        return Failure('query', inp, 'a set owned by the caller', 'result aliases K.S0')
    return None


def inspect(res, stateset):
    if not isinstance(res, set):
        return 'returned a %s' % type(res).__name__
    for s in res:
        if s not in stateset:
            return 'result contains %r which is not a state' % (s,)
    return None


BUSY, DONE = ('ap', 'busy'), ('ap', 'done')
BIG_QUERIES = [('CTL', ('A', ('F', DONE))), ('CTL', ('E', ('G', BUSY))), ('CTL', ('A', ('U', BUSY, DONE))),
               ('CTL', ('E', ('R', DONE, BUSY))), ('CTL', ('E', ('U', BUSY, DONE))), ('CTL', ('A', ('G', ('E', ('F', DONE))))),
               ('CTL', ('A', ('X', BUSY))), ('CTLS', ('A', ('F', DONE))), ('CTLS', ('E', ('G', ('F', DONE)))),
               ('CTLS', ('A', ('R', DONE, BUSY))), ('LTL', ('F', DONE)), ('LTL', ('U', BUSY, DONE)), ('LTL', ('G', ('F', BUSY)))]


def check_big(inp):
    """SIZE: a structure with hundreds or thousands of states (a timer, a ring, a tree ...) under string
    or tuple state names: the query returns a set of K's own states, again after the first result
    was emptied by the caller, whatever the length of the chains inside K."""
    K = km.big_structure(inp['shape'], inp['N'])
    naming = inp.get('naming', 'str')
    nm = graphs.NAMINGS[naming] if naming != 'str' else (lambda i: 'state-%d' % i)
    from pyModelChecking.kripke import Kripke
    try:
        kripke = Kripke(S=[nm(i) for i in range(K['n'])], R=[(nm(a), nm(b)) for a, b in K['edges']],
                        L=dict((nm(i), set(K['labels'][i])) for i in range(K['n'])))
    except Exception as e:
        return Failure('big', inp, 'the structure can be built', 'raised %s: %s' % (type(e).__name__, str(e)[:150]))
    checker = inp['checker']
    L = fm.lang(checker)
    f = fm.from_json(inp['f'])
    arg = fm.to_lib(('A', f) if checker == 'LTL' else f, L)
    stateset = set(nm(i) for i in range(K['n']))
    saved = None
    for rnd in (1, 2):
        try:
            with core.quiet():
                r = L.modelcheck(kripke, arg)
        except Exception as e:
            return Failure('big', inp, 'a set of states', 'raised %s: %s' % (type(e).__name__, str(e)[:150]), 'call %d' % rnd)
        p = inspect(r, stateset)
        if p:
            return Failure('big', inp, 'a set of K\'s states', p, 'call %d' % rnd)
        if saved is not None and r != saved:
            return Failure('big', inp, '%d states' % len(saved), '%d states' % len(r), 'emptying the first result changed the second')
        saved = set(r)
        r.clear()
    if len(kripke.states()) != K['n'] or len(kripke.transitions()) != len(K['edges']):
        return Failure('big', inp, 'structure unchanged', 'states or transitions changed')
    return None


def check_empty(inp):
    """A structure with NO states (Kripke(), or get_substructure of an empty set - e.g. of an empty
    modelcheck result) is vacuously total: every query returns the empty set, a new one each time."""
    from pyModelChecking.kripke import Kripke
    try:
        if inp['how'] == 'ctor':
            K = Kripke()
        elif inp['how'] == 'ctor-empty-args':
            K = Kripke(S=[], S0=[], R=[], L={})
        else:
            K0 = Kripke(S=['s', 't'], R=[('s', 't'), ('t', 't')], L={'s': ['p']})
            K = K0.get_substructure(set())
    except Exception as e:
        return Failure('empty', inp, 'the empty structure can be built', 'raised %s: %s' % (type(e).__name__, str(e)[:150]))
    checker = inp['checker']
    L = fm.lang(checker)
    f = fm.from_json(inp['f'])
    top = ('A', f) if checker == 'LTL' else f
    arg = fm.to_text(top) if inp.get('text') else fm.to_lib(top, L)
    last = None
    for rnd in (1, 2):
        try:
            with core.quiet():
                r = L.modelcheck(K, arg)
        except Exception as e:
            return Failure('empty', inp, 'the empty set', 'raised %s: %s' % (type(e).__name__, str(e)[:150]), 'call %d' % rnd)
        if not isinstance(r, set) or r:
            return Failure('empty', inp, 'the empty set', repr(r)[:100], 'call %d' % rnd)
        if r is last:
            return Failure('empty', inp, 'a new set object per call', 'the same object twice')
        last = r
        r.add('junk')
    return None


EMPTY_FORMULAS = {'CTL': [fm.P, ('A', ('G', fm.P)), ('E', ('U', fm.P, fm.Q)), ('not', ('E', ('X', fm.TRUE))), ('A', ('F', ('E', ('G', fm.Q))))],
                  'CTLS': [('A', ('G', ('F', fm.P))), ('E', ('U', fm.P, ('X', fm.Q))), ('A', ('G', ('E', ('F', fm.P)))), fm.TRUE, ('not', ('E', ('X', fm.P)))],
                  'LTL': [('G', ('F', fm.P)), ('U', fm.P, fm.Q), fm.P, ('X', fm.TRUE)]}


def big_shard(st, shard, nshards, payload):
    i = -1
    for shape in km.BIG_SHAPES:
        for N in payload['Ns']:
            for qi, (checker, f) in enumerate(BIG_QUERIES):
                i += 1
                if i % nshards != shard:
                    continue
                if checker != 'CTL' and N > payload['other_max']:
                    continue
                inp = {'shape': shape, 'N': N, 'checker': checker, 'f': f, 'naming': ('str', 'tuple', 'int')[(i // nshards) % 3]}
                st.evaluations += 1
                st.nontrivial += 1
                st.bump('size: %s, %d+ states' % (checker, 1000 * (N // 1000)))
                if qi == 0:
                    st.sample(inp, cls='big-' + shape)
                r = check_big(inp)
                if r is not None:
                    if st.failure is None:
                        st.failure = r
                    return


CHECKS = {'query': check_query, 'big': check_big, 'empty': check_empty}


def replay(ctx, rec):
    return check_query(rec['input'])


def is_nontrivial(inp):
    pool = pool_of(inp['pool'])
    types = set(type(pool[i]).__name__ for i in inp['state_idx'][:inp['n']])
    odd_label = any(not isinstance(LABEL_POOL[k], str) or not fm.is_identifier(LABEL_POOL[k])
                    or LABEL_POOL[k] in fm.RESERVED for lab in inp['labels'][:inp['n']] for k in lab)
    f = fm.from_json(inp['f'])
    return (len(types) >= 2 or odd_label) and bool(fm.ops(f) & set(fm.TEMP))


def random_shard(st, shard, nshards, payload):
    from hypothesis import strategies as hs
    slots = ('a0', 'a1', 'a2', 'a3')

    @hs.composite
    def cases(draw):
        pool = draw(hs.sampled_from(sorted(STATE_POOLS)))
        size = len(pool_of(pool))
        n = draw(hs.integers(1, min(7, size)))
        idx = draw(hs.permutations(list(range(size))))
        edges = []
        dense = draw(hs.integers(0, 5)) == 0
        for i in range(n):
            m = (1 << n) - 1 if dense else draw(hs.integers(1, (1 << n) - 1))
            edges += [[i, j] for j in range(n) if (m >> j) & 1]
        labels = [draw(hs.lists(hs.integers(0, len(LABEL_POOL) - 1), max_size=3, unique=True))
                  for _ in range(n)]
        as_text = draw(hs.booleans())
        used = sorted(set(LABEL_POOL[k] for lab in labels for k in lab
                          if isinstance(LABEL_POOL[k], str) and (usable_as_atom(LABEL_POOL[k]) or not as_text)))
        cand = used + ABSENT
        atoms = draw(hs.lists(hs.sampled_from(cand), min_size=1, max_size=3))
        checker = draw(hs.sampled_from(CHECKERS))
        if checker == 'CTL':
            f = draw(fm.st_formula('ctl', slots[:3], max_depth=3))
        elif checker == 'LTL':
            f = draw(fm.st_formula('ltl_path', slots[:3], max_depth=3, max_temporal=2))
        else:
            f = draw(fm.st_formula('ctls_state', slots[:3], max_depth=3, max_temporal=2))
        return {'pool': pool, 'n': n, 'state_idx': list(idx), 'edges': edges, 'labels': labels,
                'atoms': atoms, 'checker': checker, 'f': f, 'text': as_text,
                'mutate': draw(hs.integers(0, 2)), 'wide': draw(hs.sampled_from([0, 0, 0, 0, 0, 1, 2]))}

    def body(inp):
        nt = is_nontrivial(inp)
        st.random_case(inp, nt)
        st.bump('checker ' + inp['checker'])
        st.bump('state pool ' + inp['pool'])
        st.bump('formula as ' + ('text' if inp['text'] else 'object'))
        if any(a in ABSENT for a in inp['atoms']):
            st.bump('formula with an atom absent from K')
        if nt:
            st.sample(inp, cls='%s-%s' % (inp['checker'], inp['pool']))
        return check_query(inp)

    f = core.hyp_run(payload['seed'] * 1000 + shard, cases(), body, payload['n'])
    if f is not None:
        st.failure = f


def run(ctx):
    ctx.rule = ('Hypothesis structures (1-7 states, sometimes complete graphs; every state handed to S, R and L as '
                'equal but distinct objects) whose states come from pools of ints, big/negative '
                'ints, strings (incl. \'\', \'0\', \'A\', \'true\'), tuples, frozensets, mixed types or opaque objects with identity equality, '
                'and whose label sets hold identifier strings, operator-looking strings (\'p or q\', '
                '\'not p\', \'true\', \'A\', \'fair\', \'[E(X(p))]\'), and non-strings (ints, tuples, '
                'None, floats, frozensets); formulas of the called logic (CTL depth <= 3, LTL/CTL* '
                '<= 2 temporal operators per quantifier) whose atoms are drawn from the string labels '
                'of K and from names absent from K, as object or quoted text.  Each case: call, check, '
                'mutate the returned set (add junk / clear / symmetric difference), call again.  '
                'Oracle: no exception of any type, result is a set of K\'s own states, the second '
                'result equals the saved copy of the first and is a different object, it aliases '
                'nothing inside K, K\'s deep snapshot is unchanged.  SIZE: the same questions on timers, rings, trees ... with '
                'hundreds to thousands of states (chains as long as the structure).  No exactness claim.  '
                'Non-trivial = (>= 2 Python types among the states or a non-identifier / non-string / '
                'reserved-word label) and a temporal operator in the formula.')
    ctx.assumptions = ['formula depth <= 3: CPython\'s recursion limit makes deeper nests raise '
                       'RecursionError (printing is recursive); that bound is an interpreter '
                       'setting, see DESIGN 5.3',
                       'None and bools are not used as states (labels(None) is documented to mean '
                       'the whole structure)']
    shards, n = ctx.pick((16, 200), (16, 1500))
    ctx.scopes = ['%d Hypothesis processes x %d cases' % (shards, n)]
    f = core.run_sharded(ctx, random_shard, {'seed': ctx.seed, 'n': n}, nshards=shards)
    if f is not None:
        ctx.violation(f)
        return
    ctx.scopes.append('the structure with no states (Kripke(), Kripke with empty arguments, get_substructure of the empty set) x 14 queries x object/text')
    for how in ('ctor', 'ctor-empty-args', 'substructure'):
        for checker, fs in sorted(EMPTY_FORMULAS.items()):
            for fi, f in enumerate(fs):
                for text in (False, True):
                    inp = {'how': how, 'checker': checker, 'f': f, 'text': text}
                    ctx.stats.evaluations += 1
                    ctx.stats.bump('empty structure')
                    r = check_empty(inp)
                    if r is not None:
                        ctx.violation(r)
                        return
    bp = {'Ns': ctx.pick([350, 1300], [150, 700, 1300, 3100]), 'other_max': ctx.pick(350, 1300)}
    ctx.scopes.append('size: 8 shapes (timer, countdown, ring, lollipop, ladder, tree, two rings, fan) with %s states x 13 queries '
                      '(CTL; CTL* and LTL up to %d states), string / tuple / int state names' % ([n_ + 1 for n_ in bp['Ns']], bp['other_max'] + 1))
    f = core.run_sharded(ctx, big_shard, bp)
    if f is not None:
        ctx.violation(f)
