"""C18 - expression and lambda notation build the same OBDD; printing round-trips."""
import itertools

from .. import core, bdd
from ..core import Failure

IDENTS = ['a', 'b', 'c', 'd', 'x1', '_v', 'Var', 'notx', 'andy', 'orb', 'lambda_', 'T', 'ab', 'abc', 'A', 'match', 'case',
          'type', 'x2', 'a1', 'e', 'True_', 'None_', 'id', 'print', '\u00e9', '\u00f1', '\u0439', '\u00fc', '\u03b1', '\u00df']


def _obdd():
    from pyModelChecking.BDD import OBDD
    return OBDD


def _try(fn):
    try:
        return ('ok', fn())
    except Exception as e:
        return ('exc', type(e).__name__, str(e)[:160])


def check_notation(inp):
    """inp: {'e': expr, 'args': [names]} - both notations, all styles, truth table."""
    OBDD = _obdd()
    e = bdd.from_json(inp['e'])
    args = list(inp['args'])
    ref_tt = bdd.eval_tt(e, tuple(args))
    built = []
    for style, consts in (('sym', 'sym'), ('word', 'word'), ('mixed', 'sym'), ('sym', 'word')):
        text = bdd.to_str(e, style, consts)
        if style == 'word':
            if bdd.eval_python(text, tuple(args)) != ref_tt:
                raise core.HarnessError('harness truth tables disagree on %r' % (text,))
        r1 = _try(lambda: OBDD(text, list(args)))
        r2 = _try(lambda: OBDD('lambda %s: %s' % (','.join(args), text)))
        for nm, r in (('expression', r1), ('lambda', r2)):
            if r[0] != 'ok':
                return Failure('notation', inp, 'an OBDD', list(r),
                               '%s notation raised on %r' % (nm, text))
            tt = bdd.walk_tt(r[1].root, tuple(args))
            if tt != ref_tt:
                return Failure('notation', inp, ref_tt, tt,
                               '%s notation of %r denotes another function' % (nm, text))
            sp = bdd.structure_problem(r[1].root, args)
            if sp:
                return Failure('notation', inp, 'a diagram ordered by %s' % (args,), sp,
                               '%s notation of %r' % (nm, text))
        if not (r1[1] == r2[1]) or not (r2[1] == r1[1]):
            return Failure('notation', inp, 'equal OBDDs', 'lambda form != expression form', text)
        built.append((text, r1[1]))
    for text, o in built[1:]:
        if not (o == built[0][1]):
            return Failure('notation', inp, 'and/or/not are synonyms of &,|,~',
                           '%r != %r' % (text, built[0][0]))
    return None


def subexpressions(e, acc=None):
    acc = [] if acc is None else acc
    if e[0] not in ('v', 'c'):
        for c in e[1:]:
            subexpressions(c, acc)
    if e not in acc:
        acc.append(e)
    return acc


def check_roundtrip(inp):
    OBDD = _obdd()
    e = bdd.from_json(inp['e'])
    args = list(inp['args'])
    keep = []
    if inp.get('warm'):
        # printing must not depend on what was printed before: first build AND print (as roots)
        # the OBDDs of every subexpression and of the cofactors, and keep them alive
        for sub in subexpressions(e)[:-1]:
            try:
                so = OBDD(bdd.to_str(sub, 'sym', 'sym'), list(args))
                keep.append((so, str(so), str(so.root)))
            except Exception:
                pass
    if inp.get('route') == 'nodes':
        # "for every OBDD o": this one is assembled through the programmatic API - leaves from BDDNode
        # with variable names computed at run time (fresh str objects), combined with & | ~ - and
        # never comes from text
        from pyModelChecking.BDD import BDDNode

        def build(x):
            if x[0] == 'v':
                return OBDD(BDDNode(bdd.fresh_str(x[1]), BDDNode(0), BDDNode(1)), [bdd.fresh_str(a) for a in args])
            if x[0] == 'c':
                return OBDD(BDDNode(x[1]), [bdd.fresh_str(a) for a in args])
            if x[0] == 'not':
                return ~build(x[1])
            acc = build(x[1])
            for c in x[2:]:
                acc = (acc & build(c)) if x[0] == 'and' else (acc | build(c))
            return acc
        try:
            o = build(e)
        except Exception as ex:
            return Failure('roundtrip', inp, 'the OBDD can be assembled from nodes', 'raised %s: %s' % (type(ex).__name__, ex))
        if bdd.walk_tt(o.root, tuple(args)) != bdd.eval_tt(e, tuple(args)):
            return Failure('roundtrip', inp, 'the assembled OBDD denotes the expression', 'another function')
        parsed = _try(lambda: OBDD(bdd.to_str(e, 'sym', 'sym'), list(args)))
        if parsed[0] != 'ok' or not (parsed[1] == o) or (parsed[1] != o) or (o != parsed[1]):
            return Failure('roundtrip', inp, 'OBDD(expr, args) == the same function assembled from nodes',
                           list(parsed) if parsed[0] != 'ok' else 'a different OBDD')
    else:
        mine = list(args)
        o = OBDD(bdd.to_str(e, 'sym', 'sym'), mine)
        if len(args) % 2:
            # the argument list is the CALLER's: it goes on using it (another variable, another order)
            mine.insert(0, 'zz_later')
            mine.reverse()
        else:
            del mine[:]
    if inp.get('warm'):
        for v in args:
            for b in (0, 1):
                try:
                    co = o.restrict(v, b)
                    keep.append((co, str(co), str(co.root)))
                except Exception:
                    pass
    s_root = str(o.root)
    s_full = str(o)
    r = _try(lambda: OBDD(s_root, o.ordering))
    if r[0] != 'ok' or not (r[1] == o) or not (o == r[1]) or (r[1] != o) or (o != r[1]):
        return Failure('roundtrip', inp, 'OBDD(str(o.root), o.ordering) == o',
                       list(r) if r[0] != 'ok' else 'a different OBDD', 'printed root: %r' % s_root)
    r = _try(lambda: OBDD(s_root, list(args)))
    if r[0] != 'ok' or not (r[1] == o) or not (o == r[1]) or (r[1] != o) or (o != r[1]):
        return Failure('roundtrip', inp, 'OBDD(str(o.root), list) == o',
                       list(r) if r[0] != 'ok' else 'a different OBDD', 'printed root: %r' % s_root)
    r = _try(lambda: OBDD(s_full))
    if r[0] != 'ok' or not (r[1] == o) or not (o == r[1]) or (r[1] != o) or (o != r[1]):
        return Failure('roundtrip', inp, 'OBDD(str(o)) == o',
                       list(r) if r[0] != 'ok' else 'a different OBDD', 'printed: %r' % s_full)
    if bdd.walk_tt(r[1].root, tuple(args)) != bdd.eval_tt(e, tuple(args)):
        return Failure('roundtrip', inp, 'same function', 'different function', s_full)
    for (ko, text_full, text_root) in keep:
        # the earlier OBDDs print as they did, and still round-trip, after o has been printed
        if str(ko) != text_full or str(ko.root) != text_root:
            return Failure('roundtrip', inp, text_full, str(ko), 'the printed form of an OBDD changed after another one was printed')
        r = _try(lambda: OBDD(str(ko.root), ko.ordering))
        if r[0] != 'ok' or not (r[1] == ko):
            return Failure('roundtrip', inp, 'OBDD(str(k.root), k.ordering) == k for a sub-function k',
                           list(r) if r[0] != 'ok' else 'a different OBDD', 'printed root: %r' % str(ko.root))
    return None


def check_missing(inp):
    """A variable missing from the ordering / argument list raises RuntimeError."""
    OBDD = _obdd()
    e = bdd.from_json(inp['e'])
    args = list(inp['args'])
    used = bdd.variables_of(e)
    if used <= set(args):
        raise core.HarnessError('case has no missing variable')
    for style in ('sym', 'word'):
        text = bdd.to_str(e, style, 'sym')
        for nm, fn in (('expression', lambda: OBDD(text, list(args))),
                       ('lambda', lambda: OBDD('lambda %s: %s' % (','.join(args), text)))):
            r = _try(fn)
            if r[0] == 'ok' or r[1] != 'RuntimeError':
                return Failure('missing', inp, 'RuntimeError', list(r[:2]) if r[0] != 'ok' else 'an OBDD',
                               '%s notation, text %r' % (nm, text))
    return None


def check_nonbool(inp):
    """Non-Boolean syntax raises SyntaxError.  inp: {'text', 'args', 'as': expression|lambda|both}"""
    OBDD = _obdd()
    text = inp['text']
    args = list(inp['args'])
    forms = []
    if inp.get('as', 'both') in ('expression', 'both'):
        forms.append(('expression', lambda: OBDD(text, list(args))))
    if inp.get('as', 'both') in ('lambda', 'both'):
        forms.append(('lambda', lambda: OBDD('lambda %s: %s' % (','.join(args), text))))
    if inp.get('as') == 'rawlambda':
        forms.append(('lambda', lambda: OBDD(text)))
    for nm, fn in forms:
        r = _try(fn)
        if r[0] == 'ok' or r[1] != 'SyntaxError':
            return Failure('nonbool', inp, 'SyntaxError', list(r[:2]) if r[0] != 'ok' else 'an OBDD: %s' % (r[1],),
                           '%s notation' % nm)
    return None


CHECKS = {'notation': check_notation, 'roundtrip': check_roundtrip, 'missing': check_missing,
          'nonbool': check_nonbool}


def replay(ctx, rec):
    return CHECKS[rec['check']](rec['input'])


# ---------------------------------------------------------------------------------------

def nonbool_texts(e1, e2, e3):
    """Non-Boolean programs built around valid sub-expressions (texts), with how to feed them."""
    out = []
    for op in ['+', '-', '*', '/', '//', '%', '**', '<<', '>>', '@']:
        out.append(('%s %s %s' % (e1, op, e2), 'both'))
    for op in ['<', '<=', '==', '!=', '>', '>=', 'is', 'is not', 'in', 'not in']:
        out.append(('%s %s %s' % (e1, op, e2), 'both'))
    out += [('-%s' % e1, 'both'), ('+%s' % e1, 'both'), ('f(%s)' % e1, 'both'),
            ('%s(%s)' % (e1 if e1.isidentifier() else 'a', e2), 'both'),
            ('(%s).real' % e1, 'both'), ('(%s)[0]' % e1, 'both'), ('(%s)[%s]' % (e1, e2), 'both'),
            ('%s if %s else %s' % (e1, e2, e3), 'both'), ('(%s, %s)' % (e1, e2), 'both'),
            ('[%s]' % e1, 'both'), ('{%s}' % e1, 'both'), ('{%s: %s}' % (e1, e2), 'both'),
            ('(lambda z: z)', 'both'), ('lambda z: %s' % e1, 'both'),
            ('(%s) & 2' % e1, 'both'), ('(%s) | 7' % e1, 'both'), ('~3', 'both'), ('-1', 'both'),
            ('(%s) & "s"' % e1, 'both'), ('(%s) | None' % e1, 'both'), ('2.5', 'both'),
            ('(%s) and 2' % e1, 'both'), ('not 5', 'both'), ("'a'", 'both'), ('...', 'both'),
            ('[x for x in %s]' % e1, 'both'), ('(z := %s)' % e1, 'both'),
            ('%s & (%s + %s)' % (e1, e2, e3), 'both'), ('~(%s < %s)' % (e1, e2), 'both'),
            ('not -(%s)' % e1, 'both'), ('(%s) or +(%s)' % (e1, e2), 'both'),
            # statements instead of an expression
            ('z = %s' % e1, 'expression'), ('%s; %s' % (e1, e2), 'expression'), ('pass', 'expression'),
            ('%s\n%s' % (e1, e2), 'expression'), ('del a', 'expression'), ('import os', 'expression'),
            ('assert %s' % e1, 'expression'), ('a &= b', 'expression'), ('return a', 'expression'),
            ('def f(): pass', 'expression'), ('if a: b', 'expression'), ('', 'expression'),
            ('   ', 'expression'), ('# only a comment', 'expression'),
            # syntactically invalid
            ('%s &' % e1, 'both'), ('(%s' % e1, 'both'), ('%s %s' % (e1, e2), 'both'),
            ('%s &| %s' % (e1, e2), 'both'), ('%s ~ %s' % (e1, e2), 'both'), ('a b c', 'both'),
            (')%s(' % e1, 'both'), ('%s &&& %s' % (e1, e2), 'both'), ('1a', 'both'),
            # a lambda is required when no ordering is given
            ('%s' % e1, 'rawlambda'), ('z = lambda a: a', 'rawlambda'), ('lambda a: a; 1', 'rawlambda'),
            ('lambda a: a\nlambda b: b', 'rawlambda'), ('(lambda a: a)(1)', 'rawlambda'),
            ('pass', 'rawlambda'), ('', 'rawlambda'), ('lambda a: a +', 'rawlambda'),
            ('lambda a, b: a - b', 'rawlambda'), ('lambda a: lambda b: a', 'rawlambda')]
    return out


def diagram_shape(e, args):
    """'branchy' if the diagram has a node both of whose children are non-terminal."""
    OBDD = _obdd()
    o = OBDD(bdd.to_str(e), list(args))
    for x in bdd.reachable_nodes(o.root):
        if not bdd.is_terminal(x) and not bdd.is_terminal(x.low) and not bdd.is_terminal(x.high):
            return 'branchy'
    return 'chain'


def enum_shard(st, shard, nshards, payload):
    variables = ('a', 'b', 'c')
    exprs = bdd.enum_exprs(variables, payload['k'])
    perms = list(itertools.permutations(variables))
    idx = -1
    for e in exprs:
        idx += 1
        if idx % nshards != shard:
            continue
        used = sorted(bdd.variables_of(e))
        # every order of the full argument list, plus the minimal argument list
        arglists = [list(p) for p in perms] + [used]
        for args in arglists:
            if not set(used) <= set(args):
                continue
            inp = {'e': e, 'args': args}
            for name in ('notation', 'roundtrip', 'roundtrip-warm', 'roundtrip-nodes'):
                st.evaluations += 1
                try:
                    if name == 'roundtrip-warm':
                        f = check_roundtrip(dict(inp, warm=True))
                    elif name == 'roundtrip-nodes':
                        st.bump('round trip of an OBDD assembled from nodes')
                        f = check_roundtrip(dict(inp, route='nodes'))
                    else:
                        f = CHECKS[name](inp)
                except core.HarnessError:
                    raise
                if f is not None:
                    if st.failure is None:
                        st.failure = f
                    return
            try:
                shape = diagram_shape(e, args)
            except Exception:
                shape = 'unbuildable'
            st.bump('shape=' + shape)
            if shape == 'branchy' and len(args) >= 2:
                st.nontrivial += 1
                st.sample(inp, cls='enum-branchy-%d' % len(used))
        # missing variable: drop one used variable from the argument list
        for v in used:
            args = [x for x in variables if x != v]
            st.evaluations += 1
            st.bump('missing-variable cases')
            f = check_missing({'e': e, 'args': args})
            if f is not None:
                if st.failure is None:
                    st.failure = f
                return


def run(ctx):
    from hypothesis import strategies as hs
    ctx.rule = ('expressions over and/or/not (binary in the enumerated scope, n-ary in the '
                'random one), constants 0/1/True/False, variables from a pool of identifiers; each '
                'is written in four styles (&|~, and/or/not, mixed, word constants) and fed to '
                'OBDD(expr, args) and OBDD("lambda args: expr") for every order of the argument '
                'list.  Oracles: truth table computed by the harness (and by Python eval for the '
                'word style) vs a walk of the diagram on every assignment; lambda == expression '
                '(==, both argument orders); synonyms equal; OBDD(str(o.root), o.ordering) == o and '
                'OBDD(str(o)) == o, also after the OBDDs of every subexpression and cofactor have been printed as roots and '
                'are kept alive (printing must not depend on history); missing variable -> RuntimeError; generated non-Boolean '
                'programs (arithmetic, comparisons, unary +/-, calls, attributes, subscripts, '
                'literals, conditionals, statements, invalid text) -> SyntaxError.  '
                'Non-trivial = the diagram has a node with two non-terminal children and >= 2 '
                'arguments (the shape on which printing needs parentheses).')
    ctx.scopes = ['all expressions with <= %d operators over {a,b,c,0,1} x all 6 argument orders'
                  % ctx.pick(2, 3)]
    ctx.exhaustive = True
    ctx.assumptions = ["'^' inside an expression string and integral float / complex-zero "
                       "literals are in neither class (the property is silent on them)"]
    f = core.run_sharded(ctx, enum_shard, {'k': ctx.pick(2, 3)})
    if f is not None:
        ctx.violation(f)
        return

    f = core.run_random(ctx, random_shard, 4000, 40000)
    if f is not None:
        ctx.violation(f)


def random_shard(st, shard, nshards, payload):
    from hypothesis import strategies as hs

    @hs.composite
    def cases(draw):
        nv = draw(hs.integers(1, 5))
        names = draw(hs.lists(hs.sampled_from(IDENTS), min_size=nv, max_size=nv, unique=True))
        e = draw(bdd.st_expr(tuple(names), max_depth=4))
        extra = draw(hs.lists(hs.sampled_from([x for x in IDENTS if x not in names]), max_size=3, unique=True))
        args = draw(hs.permutations(sorted(bdd.variables_of(e) | set(extra)) or names[:1]))
        return {'e': e, 'args': list(args)}

    def body(inp):
        e = bdd.from_json(inp['e'])
        try:
            shape = diagram_shape(e, inp['args'])
        except Exception:
            shape = 'unbuildable'
        nt = shape == 'branchy' and len(inp['args']) >= 2
        st.random_case(inp, nt)
        st.bump('random shape=' + shape)
        st.bump('random args=%d' % len(inp['args']))
        if nt:
            st.sample(inp, cls='random-%d' % len(inp['args']))
        for name in ('notation', 'roundtrip'):
            f = CHECKS[name](inp)
            if f is not None:
                return f
        f = check_roundtrip(dict(inp, warm=True))
        if f is None:
            st.bump('random: round trip of an OBDD assembled from nodes')
            f = check_roundtrip(dict(inp, route='nodes', warm=bool(len(inp['args']) % 2)))
        if f is not None:
            return f
        used = sorted(bdd.variables_of(e))
        for v in used:
            st.bump('random missing-variable cases')
            f = check_missing({'e': inp['e'], 'args': [x for x in inp['args'] if x != v]})
            if f is not None:
                return f
        return None

    f = core.hyp_run(payload['seed'] * 1000 + shard, cases(), body, payload['n'])
    if f is not None:
        st.failure = f
        return

    # non-Boolean corpus, generated around valid sub-expressions
    sub = hs.tuples(bdd.st_expr(('a', 'b'), max_depth=1), bdd.st_expr(('a', 'b'), max_depth=1),
                    bdd.st_expr(('a', 'b'), max_depth=1), hs.integers(0, 10 ** 6))

    def body2(c):
        e1, e2, e3, k = c
        t1, t2, t3 = [bdd.to_str(x, 'sym' if k % 2 else 'word') for x in (e1, e2, e3)]
        texts = nonbool_texts(t1, t2, t3)
        text, how = texts[k % len(texts)]
        inp = {'text': text, 'args': ['a', 'b'], 'as': how}
        st.random_case(inp, True)
        st.bump('non-Boolean programs')
        if k % 17 == 0:
            st.sample(inp, cls='nonbool-%d' % (k % len(texts) // 12))
        return check_nonbool(inp)

    f = core.hyp_run(payload['seed'] * 1000 + 500 + shard, sub, body2, max(1, (payload['n'] * 4) // 5))
    if f is not None:
        st.failure = f
