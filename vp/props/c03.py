"""C03 - CTL* model checking is exact for arbitrary quantifier/path-operator nesting."""
from .. import core, fm, km, mc, ref
from ..core import Failure
from .c01 import minimise, NAMINGS, scope_iter

FORMS = ['obj', 'text', 'str', 'shared', 'raw']


def routes(f, acc=None, under_temporal=False):
    """Which dispatch routes of the CTL* checker the formula exercises (classification only)."""
    acc = set() if acc is None else acc
    o = f[0]
    if o in fm.QUANT:
        body = f[1]
        if body[0] in fm.TEMP and all(ref.is_state_like(c) for c in body[1:]):
            acc.add('CTL-shaped quantifier')
        elif o == 'A':
            acc.add('non-CTL A (LTL route)')
        else:
            acc.add('non-CTL E (not A not route)')
        if under_temporal:
            acc.add('quantifier under a temporal operator (fresh atom)')
        routes(body, acc, False)
        return acc
    for c in fm.children(f):
        routes(c, acc, under_temporal or o in fm.TEMP)
    return acc


def check_ctls(inp):
    K = inp['K']
    f = fm.from_json(inp['f'])
    M = ref.Model(K)
    exp = ref.star_eval(M, f)
    out = mc.call('CTLS', K, f, inp.get('naming', 'int'), inp.get('how', 0),
                  form=inp.get('form', 'obj'), atoms=inp.get('atoms'), containers=inp.get('containers', 'list'))
    if out == ('set', exp):
        return None
    note = ''
    if out[0] == 'set':
        note = 'missing=%s extra=%s' % (ref.mask_to_list(exp & ~out[1]),
                                        ref.mask_to_list(out[1] & ~exp))
    return Failure('ctls', inp, mc.show_mask(exp), mc.show(out), note)


VOCAB_TEMPLATES = [('A', ('G', ('F', fm.P))), ('E', ('U', fm.P, ('X', fm.Q))), ('A', ('imp', ('F', fm.Q), ('U', fm.P, fm.Q))),
                   ('E', ('G', ('or', fm.P, ('A', ('X', fm.Q))))), ('and', fm.P, ('E', ('F', ('G', fm.Q)))), ('A', ('G', ('E', ('F', fm.P))))]
VOCAB_STRUCTURES = [(2, 77), (3, 1000), (3, 2345), (3, 3210)]


def vocab_shard(st, shard, nshards, payload):
    """Atoms named like the identifiers and string constants of the library's own source (vp/vocab.py)."""
    from .. import vocab
    names = vocab.names()
    Ks = [km.scope_at(n, i) for (n, i) in VOCAB_STRUCTURES]
    i = -1
    for w in names:
        for ki, K in enumerate(Ks):
            for ti, t in enumerate(VOCAB_TEMPLATES):
                i += 1
                if i % nshards != shard or (ki * 5 + ti + len(w)) % payload.get('thin', 1):
                    continue
                inp = {'K': K, 'f': t, 'naming': NAMINGS[(ki + ti) % 3], 'how': ti % 6, 'form': ('obj', 'text')[ti % 2],
                       'atoms': {'p': w}}
                st.evaluations += 1
                r = check_ctls(inp)
                if r is not None:
                    if st.failure is None:
                        st.failure = r
                    return


CHECKS = {'ctls': check_ctls}


def replay(ctx, rec):
    return CHECKS[rec['check']](rec['input'])


def is_nontrivial(f):
    r = routes(f)
    if fm.temporal_count(f) == 0:
        return False
    return bool(r - set(['CTL-shaped quantifier'])) or fm.quant_depth(f) >= 2


def formula_scope(name):
    """Deterministic CTL* state-formula scopes."""
    if name == 'Qg-k1':
        return [(q, g) for q in 'AE' for g in fm.ltl_paths(1)]
    if name == 'Qg-k2':
        return [(q, g) for q in 'AE' for g in fm.ltl_paths(2)]
    if name == 'Qg-tt':
        # two operators, both temporal: the operand of the outer temporal operator is itself a
        # path formula (G F p, X G q, (X p) U q, ...): the shapes no CTL rule applies to
        return [(q, g) for q in 'AE' for g in fm.enum_exact(fm.LTL_UN, fm.LTL_BIN, (fm.P, fm.Q), 2)
                if g[0] in fm.TEMP and fm.temporal_count(g) == 2]
    if '/' in name:
        base, step = name.split('/')
        return formula_scope(base)[::int(step)]
    if name == 'nary':
        return fm.ctls_nary()
    if name == 'ctx':
        return [(q, g) for g in fm.ltl_context() for q in 'AE']
    if name == 'ctxq':
        return fm.ctls_context_q()
    if name == 'sib':
        return fm.ctls_siblings()
    if name == 'sib/2':
        return fm.ctls_siblings()[::2]
    if name == 'rep':
        return [(q, g) for q in 'AE' for g in fm.ltl_repeated()[::2]] + fm.ctl_repeated()[::9]
    if name == 'Qg-k3':
        return [(q, g) for q in 'AE' for g in fm.enum_strided(fm.LTL_UN, fm.LTL_BIN, (fm.P, fm.Q), 3, 97)]
    if name == 'nest3':
        # quantifier nesting 3: Q1 o1 (Q2 o2 (Q3 o3 p)) with temporal operators in between
        out = []
        ops1 = [lambda f: ('X', f), lambda f: ('F', f), lambda f: ('G', f), lambda f: ('U', fm.Q, f),
                lambda f: ('R', f, fm.Q), lambda f: ('not', ('X', f)), lambda f: ('and', fm.Q, ('X', f))]
        i = 0
        for q1 in 'AE':
            for q2 in 'AE':
                for q3 in 'AE':
                    for a in ops1:
                        for b in ops1[:5]:
                            for c in ops1[:4]:
                                i += 1
                                if i % 5 == 0:
                                    out.append((q1, a((q2, b((q3, c(fm.P)))))))
        return out
    if name == 'nest2':
        inner = []
        for q in 'AE':
            for h in fm.enum_exact(fm.LTL_UN, fm.LTL_BIN, (fm.P, fm.Q), 1):
                if h[0] in fm.TEMP:
                    inner.append((q, h))
        out = []
        for i, leaf in enumerate(inner):
            other = fm.Q if i % 2 else fm.P
            for g in fm.enum_upto(fm.LTL_UN, fm.LTL_BIN, (other, leaf), 1):
                if leaf in fm.subformulas(g):
                    for q in 'AE':
                        out.append((q, g))
        return out
    if name == 'bool2':
        qs = [(q, g) for q in 'AE' for g in fm.enum_exact(fm.LTL_UN, fm.LTL_BIN, (fm.P, fm.Q), 1)
              if g[0] in fm.TEMP]
        qs2 = [(q, g) for q in 'AE'
               for g in fm.enum_exact(fm.LTL_UN, fm.LTL_BIN, (fm.P, fm.Q), 2)[::23]
               if fm.temporal_count(g) >= 1]
        out = []
        for i, a in enumerate(qs2):
            b = qs[i % len(qs)]
            out.append(('and', a, b))
            out.append(('or', b, a))
            out.append(('imp', a, b))
            out.append(('not', a))
        return out
    raise ValueError(name)


def enum_shard(st, shard, nshards, payload):
    L = fm.lang('CTLS')
    idx = -1
    for (n, scope_name, stride) in payload['scopes']:
        forms = formula_scope(scope_name)
        objs = {}
        rts = [sorted(routes(f)) for f in forms]
        nts = [is_nontrivial(f) for f in forms]
        for j, K in enumerate(scope_iter(n, stride, nshards)):
            # every stride-th structure of THIS scope (S(4)+ are already strided by the decoder),
            # dealt round-robin to the shards
            if n < 4:
                if j % stride:
                    continue
                j //= stride
            # work is dealt to the shards per (structure, formula) item, not per structure: scopes
            # with few structures and many (or slow) formulas would otherwise leave shards idle
            idx = j
            M = ref.Model(K)
            naming = NAMINGS[idx % len(NAMINGS)]
            how = idx % 6
            ai = (idx // 2) % len(fm.ATOM_MAPS)
            amap = fm.atom_map(ai)
            cont = 'shared' if idx % 4 == 3 else 'list'
            kripke = km.to_lib(km.rename_labels(K, amap), naming, how, cont)
            back = dict((km.name_of(naming)(i), i) for i in range(n))
            memo = {}
            for fi, f in enumerate(forms):
                if (j * 7 + fi) % nshards != shard:
                    continue
                exp = ref.star_eval(M, f, None, memo)
                try:
                    ok_ = (fi, ai if amap else None)
                    if ok_ not in objs:
                        objs[ok_] = fm.to_lib(fm.rename_atoms(f, amap), L, raw_leaves=(fi % 3 == 2), share={} if fi % 2 else None)
                    with core.quiet():
                        res = L.modelcheck(kripke, objs[ok_])
                    out = mc.normalise(res, back)
                except Exception as e:
                    out = ('exc', type(e).__name__, str(e)[:200])
                st.evaluations += 1
                if nts[fi]:
                    st.nontrivial += 1
                    if exp not in (0, M.full):
                        st.bump('non-trivial with answer a proper subset')
                for r in rts[fi]:
                    st.bump('route: ' + r)
                if out != ('set', exp):
                    inp = {'K': K, 'f': f, 'naming': naming, 'how': how, 'form': 'raw' if fi % 3 == 2 else ('shared' if fi % 2 else 'obj'), 'atoms': ai, 'containers': cont}
                    fresh = check_ctls(inp)
                    if fresh is None:
                        st.add_extra('mismatch_only_with_reused_structure')
                        continue
                    if st.failure is None:
                        st.failure = fresh
                    return
                if nts[fi] and fi % 53 == 0:
                    st.sample({'K': K, 'f': f, 'expected': ref.mask_to_list(exp)},
                              cls='%s-n%d-%s' % (scope_name, n, rts[fi][0] if rts[fi] else ''))


SCOPE_LEGEND = {
    'Qg-k1': 'Qg-k1 (A g / E g, g a path formula with <= 1 operator)', 'Qg-k2': 'Qg-k2 (A g / E g, g with <= 2 operators: 8648 formulas)',
    'Qg-tt': 'Qg-tt (two nested temporal operators)', 'Qg-k3': 'Qg-k3 (every 97th body with exactly 3 operators)',
    'nest2': 'nest2 (quantifier nesting 2)', 'nest3': 'nest3 (224 formulas with quantifier nesting 3)', 'bool2': 'bool2 (Boolean combinations of quantified formulas)',
    'sib': 'sib (1344 formulas quantifying one non-CTL path formula twice as siblings)',
    'rep': 'rep (repeated temporal/quantified subformulas under both polarities)',
    'nary': 'nary (1736 formulas: A/E over 3- and 4-ary and/or of temporal operands)',
    'ctx': 'ctx (79680 formulas Q g, g a context of <= 2 operators over {p,q,SLOT} with SLOT at least twice x every 1-operator path formula)',
    'ctxq': 'ctxq (23240 formulas Q1 ctx[Q2 h]: a repeated QUANTIFIED subformula)'}

def run(ctx):
    from hypothesis import strategies as hs
    ctx.rule = ('S(n) as in C01.  Formula scopes: Qg-k = {A g, E g : g an LTL-style path formula '
                'with <= k operators over {p,q,true,false}}; nest2 = Q g with g of <= 1 operator '
                'over {p or q, Q\' h} for every quantified one-temporal-operator formula Q\' h '
                '(quantifier nesting 2); bool2 = Boolean combinations of two quantified formulas. '
                'Random: structures <= 4 states x CTL* state formulas (<= 3 temporal operators '
                'per quantifier, nesting <= 2) as object, independent text and library str.  '
                'Oracle: R-STAR.  Non-trivial = >= 1 temporal operator and (some quantifier body is not '
                'CTL-shaped or quantifier nesting >= 2).  Route histogram in classes.')
    if ctx.thorough:
        scopes = [(1, 'Qg-k2', 1), (2, 'Qg-k2', 3), (1, 'nest2', 1), (2, 'nest2', 2),
                  (2, 'bool2', 2), (3, 'Qg-k1', 48), (3, 'nest2', 192), (4, 'Qg-k1', 24001),
                  (3, 'Qg-tt', 21), (3, 'Qg-k2', 631), (4, 'Qg-tt', 120011),
                  (2, 'Qg-k3', 3), (3, 'Qg-k3', 631), (2, 'nest3', 3), (3, 'nest3', 301),
                  (1, 'sib', 1), (2, 'sib', 6), (3, 'sib', 599), (2, 'rep', 12), (3, 'rep', 2999),
                  (2, 'nary', 6), (3, 'nary', 599),
                  (1, 'ctx/2', 1), (2, 'ctx/33', 4), (1, 'ctxq', 1), (2, 'ctxq/15', 4), (3, 'ctxq/97', 5401)]
    else:
        scopes = [(1, 'Qg-k2', 1), (2, 'Qg-k1', 1), (2, 'Qg-k2', 48), (1, 'nest2', 1),
                  (2, 'nest2', 24), (2, 'bool2', 12), (3, 'Qg-k1', 401), (4, 'Qg-k1', 240011),
                  (3, 'Qg-tt', 701), (2, 'Qg-k3', 24), (3, 'Qg-k3', 3001), (2, 'nest3', 12), (3, 'nest3', 2003),
                  (2, 'sib/2', 36), (3, 'sib/2', 5501), (2, 'rep', 72), (3, 'rep', 11003),
                  (2, 'nary/8', 48), (3, 'nary/8', 7001),
                  (1, 'ctx/8', 1), (1, 'ctxq/4', 1), (2, 'ctxq/41', 24)]
    ctx.scopes = core.describe_scopes(scopes, SCOPE_LEGEND)
    ctx.exhaustive = True
    ctx.assumptions = ['reference semantics vp/ref.py (R-STAR) is the trusted base',
                       'atoms are p,q: exactness under atom names that collide with the '
                       'checker\'s generated names ([..], fair) is not asserted (DESIGN 5.3)']
    f = core.run_sharded(ctx, enum_shard, {'scopes': scopes})
    if f is not None:
        ctx.violation(minimise(f, check_ctls, valid=fm.ctls_state))
        return

    ctx.scopes.append('vocabulary: p spelled as each identifier / string constant of the library source (about 500 names) x 6 CTL* templates x 4 structures%s'
                      % ('' if ctx.thorough else ' (every 3rd combination)'))
    f = core.run_sharded(ctx, vocab_shard, {'thin': ctx.pick(3, 1)})
    if f is not None:
        ctx.violation(f)
        return

    f = core.run_random(ctx, random_shard, 800, 12000)
    if f is not None:
        ctx.violation(f)


def random_shard(st, shard, nshards, payload):
    from hypothesis import strategies as hs
    case = hs.fixed_dictionaries({
        'K': km.st_kripke(1, 4),
        'f': fm.st_formula('ctls_state', max_depth=4, max_temporal=3),
        'naming': hs.sampled_from(NAMINGS),
        'how': hs.integers(0, 5),
        'atoms': hs.integers(0, len(fm.ATOM_MAPS) - 1),
        'containers': hs.sampled_from(['list', 'list', 'set', 'tuple', 'shared']),
        'form': hs.sampled_from(FORMS),
        'extra': hs.integers(0, 600),
    })

    def body(inp):
        f_ = fm.from_json(inp['f'])
        nt = is_nontrivial(f_)
        if inp['extra'] % 3 == 0:
            # an atom that the formula does not mention, named like the atoms the checker generates
            # itself ('[E(X(p))]', 'fair', ...): it cannot change the answer, K carries it legitimately
            from .c06 import adversarial_names
            names = adversarial_names(f_)
            name = names[(inp['extra'] // 3) % len(names)]
            K = inp['K']
            where = set((inp['extra'] // 7 + j) % K['n'] for j in range(1 + inp['extra'] % 2))
            inp = dict(inp, K=dict(K, labels=[list(l) + ([name] if i in where else [])
                                              for i, l in enumerate(K['labels'])]))
            st.bump('random: K carries an atom named like a generated one')
        inp = dict((k, v) for k, v in inp.items() if k != 'extra')
        st.random_case([inp['K'], inp['f']], nt)
        st.bump('random form=' + inp['form'])
        st.bump('random nesting=%d' % fm.quant_depth(f_))
        for r in routes(f_):
            st.bump('random route: ' + r)
        if nt:
            st.sample(inp, cls='random-%d-%s' % (fm.quant_depth(f_), inp['form']))
        return check_ctls(inp)

    f = core.hyp_run(payload['seed'] * 1000 + shard, case, body, payload['n'])
    if f is not None:
        st.failure = f
