"""C12 - strongly connected components are computed exactly (DESIGN 4, C12)."""
from .. import core
from ..core import Failure
from .. import graphs as G
from .. import ghist


def build(inp):
    """Library DiGraph for a case {n, edges, how, naming, via}."""
    from pyModelChecking.graph import DiGraph
    from pyModelChecking.kripke import Kripke
    V, E = G.present(inp['n'], [tuple(e) for e in inp['edges']], inp['how'], inp['naming'])
    via = inp.get('via', 'ctor')
    if via == 'ctor':
        return DiGraph(V=V, E=E)
    if via == 'incremental':
        g = DiGraph()
        done, done_e = set(), set()        # two sets: a node may itself BE a pair of nodes
        for v in V:
            if v not in done:              # add_node / add_edge refuse what is already there
                g.add_node(v)
                done.add(v)
        for (a, b) in E:
            if (a, b) not in done_e:
                g.add_edge(a, b)
                done_e.add((a, b))
        return g
    if via == 'kripke':
        return Kripke(S=V, R=E)
    raise core.HarnessError('unknown via %r' % (via,))


def expand_big(inp):
    """A case {'big': shape, 'N': N, ...} stands for the large graph of that shape (km.big_structure)."""
    if 'big' not in inp:
        return inp
    from .. import km
    K = km.big_structure(inp['big'], inp['N'])
    return dict(inp, n=K['n'], edges=K['edges'])


def check_scc(inp):
    from pyModelChecking.graph import compute_SCCs
    report = inp
    inp = expand_big(inp)
    n = inp['n']
    edges = [tuple(e) for e in inp['edges']]
    nm = G.NAMINGS[inp['naming']]
    try:
        g = build(inp)
    except core.HarnessError:
        raise
    except Exception as e:
        return Failure('scc', report, 'the graph can be built', 'raised %s: %s' % (type(e).__name__, e))
    if 'big' in report:
        inp = report                      # failures are reported with the compact description
    before = G.snapshot_graph(g)
    try:
        comps = [list(c) for c in compute_SCCs(g)]
    except Exception as e:
        return Failure('scc', inp, 'a partition of the nodes', 'raised %s: %s' % (type(e).__name__, e))
    after = G.snapshot_graph(g)
    expected = set(frozenset(nm(i) for i in c) for c in G.scc_partition(n, edges))
    flat = [v for c in comps for v in c]
    got = set(frozenset(c) for c in comps)
    exp_txt = sorted(sorted(map(repr, c)) for c in expected)
    got_txt = sorted(sorted(map(repr, c)) for c in comps)
    if len(flat) != len(set(flat)) or len(got) != len(comps):
        return Failure('scc', inp, exp_txt, got_txt, 'a node occurs in more than one component')
    if set(flat) != set(nm(i) for i in range(n)):
        return Failure('scc', inp, exp_txt, got_txt, 'components do not cover the nodes')
    if got != expected:
        return Failure('scc', inp, exp_txt, got_txt, 'components differ from mutual reachability')
    if before != after:
        return Failure('scc', inp, 'graph unchanged', 'graph changed by compute_SCCs')
    return None


def check_history(inp):
    """Every compute_SCCs answer along an add_node/add_edge/query history on ONE graph object is the
    decomposition of the graph as it is at that moment."""
    r = ghist.run(inp)
    if r is None:
        return None
    k, what, exp, got = r
    return Failure('history', inp, exp, got, 'step %d (%r): %s' % (k, inp['ops'][k], what))


CHECKS = {'scc': check_scc, 'history': check_history}


def replay(ctx, rec):
    return CHECKS[rec['check']](rec['input'])


def nontrivial(n, edges):
    comps = G.scc_partition(n, edges)
    return len(comps) >= 2 and any(len(c) >= 2 for c in comps)


def _is_total(n, edges):
    return set(a for a, _ in edges) == set(range(n))


def masks_of(n, step):
    """All adjacency masks of n nodes (step 1), or a deterministic low-discrepancy sample of
    about 2^(n*n)/step of them, sparse and dense graphs alike (the sample ANDs/ORs golden-ratio
    hashes so that edge densities from ~1/4 to ~3/4 all occur)."""
    bits = n * n
    if step <= 1:
        return range(1 << bits)
    count = max(1, (1 << bits) // step)
    full = (1 << bits) - 1

    def gen():
        for i in range(count):
            a = (i * 0x9E3779B97F4A7C15 + 0x7F4A7C15) & full
            b = (i * 0xC2B2AE3D27D4EB4F + 0x165667B1) & full
            k = i % 3
            yield (a & b) if k == 0 else ((a | b) if k == 1 else a)
    return gen()


def sparse_masks(n, step):
    """Sparse digraphs, which dense sampling never produces: every FUNCTIONAL graph on n nodes (each
    node exactly one successor: unions of cycles with in-trees), each also with one and with two
    extra edges chosen by index; step > 1 takes every step-th function."""
    total = n ** n
    for f in range(0, total, step):
        succ = []
        x = f
        for i in range(n):
            succ.append(x % n)
            x //= n
        mask = 0
        for i, j in enumerate(succ):
            mask |= 1 << (i * n + j)
        yield mask
        a, b = (f * 7 + 3) % n, (f * 5 + 1) % n
        yield mask | (1 << (a * n + b))
        c, d = (f * 11 + 2) % n, (f * 3 + 4) % n
        yield mask | (1 << (a * n + b)) | (1 << (c * n + d))


def enum_shard(st, shard, nshards, payload):
    idx = 0
    for (n, step) in payload['scopes']:
        for mask in (sparse_masks(n, -step) if step < 0 else masks_of(n, step)):
            idx += 1
            if idx % nshards != shard:
                continue
            edges = G.edges_of_mask(n, mask)
            nt = nontrivial(n, edges)
            total = _is_total(n, edges)
            ncomp = len(G.scc_partition(n, edges))
            for how in range(6):
                naming = ('int', 'str', 'revint', 'tuple', 'mixed', ('nonefirst', 'nested', 'int')[idx % 3])[how]
                vias = ['ctor']
                if how == 1:
                    vias.append('incremental')
                if total and how in (0, 2):
                    vias.append('kripke')
                for via in vias:
                    inp = {'n': n, 'edges': edges, 'how': how, 'naming': naming, 'via': via}
                    st.evaluations += 1
                    if nt:
                        st.nontrivial += 1
                    st.bump('n=%d' % n)
                    st.bump('via=%s' % via)
                    st.bump('components=%d' % ncomp)
                    if nt:
                        st.sample(inp, cls='nt-n%d-%s' % (n, via))
                    f = check_scc(inp)
                    if f is not None and st.failure is None:
                        st.failure = f
                        return


def _q_scc(i):
    return [['scc']]


def _q_mixed(i):
    return [[['scc'], ['scc_partial', 1], ['scc_of', 'reverse', []], ['scc_of', 'clone', []],
             ['scc_partial', 0], ['scc_of', 'subgraph', [0, 1, 2]], ['scc_nested']][i % 7], ['scc']][:1 + i % 2]


def history_shard(st, shard, nshards, payload):
    """The construction sequences of every digraph in scope (four edit orders) with a
    compute_SCCs after every edit, at one chosen point, or twice at the end."""
    idx = 0
    for (n, step) in payload['scopes']:
        for mask in masks_of(n, step):
            edges = G.edges_of_mask(n, mask)
            nt = nontrivial(n, edges)
            for order in range(4):
                edits = ghist.construction(n, mask, order)
                variants = [('every', 0, _q_scc), ('every', 0, _q_mixed), ('twice', 0, _q_scc)]
                if n <= payload['at_upto']:
                    variants += [('at', k, _q_scc) for k in range(len(edits) + 1)]
                else:
                    variants += [('at', (mask + order) % (len(edits) + 1), _q_scc)]
                for (mode, k, q) in variants:
                    idx += 1
                    if idx % nshards != shard:
                        continue
                    inp = {'naming': ('int', 'str', 'tuple', 'opaque')[(idx // nshards) % 4],
                           'tamper': (idx // nshards) % 3 == 0,
                           'ops': ghist.interleave(edits, q, mode, k)}
                    st.evaluations += 1
                    if nt:
                        st.nontrivial += 1
                    st.bump('history: %s' % mode)
                    st.bump('history: n=%d' % n)
                    if nt and (idx // nshards) % 97 == 0:
                        st.sample(inp, cls='history-%s-n%d' % (mode, n))
                    f = check_history(inp)
                    if f is not None and st.failure is None:
                        st.failure = f
                        return


def big_shard(st, shard, nshards, payload):
    """SIZE: graphs with hundreds to thousands of nodes (paths and cycles as long as the graph, a node with
    thousands of successors, a complete binary tree)."""
    from .. import km
    i = -1
    for shape in km.BIG_SHAPES:
        for N in payload['Ns']:
            for via in ('ctor', 'incremental'):
                i += 1
                if i % nshards != shard:
                    continue
                inp = {'big': shape, 'N': N, 'how': (0, 1, 2)[i % 3], 'naming': ('int', 'str', 'tuple')[(i // 3) % 3], 'via': via}
                st.evaluations += 1
                st.nontrivial += 1
                st.bump('size: %d+ nodes' % (1000 * (N // 1000)))
                st.sample(inp, cls='big-' + shape)
                f = check_scc(inp)
                if f is not None and st.failure is None:
                    st.failure = f
                    return


def history_random_shard(st, shard, nshards, payload):
    def body(inp):
        nq = sum(1 for op in inp['ops'] if op[0].startswith('scc'))
        ne = sum(1 for op in inp['ops'] if op[0] in ('node', 'edge'))
        nt = nq >= 2 and ne >= 3
        st.random_case(inp, nt)
        st.bump('random history: %d+ queries' % min(nq, 5))
        if nt:
            st.sample(inp, cls='random-history')
        return check_history(inp)

    strat = ghist.st_history(['scc', 'scc', 'scc_partial', 'scc_nested', 'scc_of', 'fork', 'clone'], max_nodes=7, max_ops=40)
    f = core.hyp_run(payload['seed'] * 1000 + 500 + shard, strat, body, payload['n'])
    if f is not None:
        st.failure = f


def _minimise_history(f):
    """Greedy: drop operations while the history stays applicable and still fails."""
    inp = dict(f.input)
    ops = list(inp['ops'])
    changed = True
    while changed:
        changed = False
        for i in range(len(ops)):
            cand = ops[:i] + ops[i + 1:]
            if not ghist.valid_ops(cand):
                continue
            g = check_history(dict(inp, ops=cand))
            if g is not None:
                ops, f, changed = cand, g, True
                break
    return f


def run(ctx):
    from hypothesis import strategies as hs
    ctx.rule = ('every labelled digraph on n nodes (adjacency bit mask) x 6 presentations '
                '(node/edge list orders, nodes implied by edges only, int/str/tuple/mixed node '
                'types) x construction route (constructor, add_node/add_edge, Kripke); random '
                'digraphs up to 12 nodes.  Oracle: Warshall closure (mutual reachability), '
                'disjointness, cover, graph unchanged.  Non-trivial = at least two components '
                'and at least one component with >= 2 nodes; exhaustive cases are distinct by '
                'construction, random ones are counted by digest.')
    scopes = [(0, 1), (1, 1), (2, 1), (3, 1), (4, 1)]
    ctx.scopes = ['all digraphs with n<=4 nodes (1+2+16+512+65536 edge sets) x 6 presentations']
    # beyond the exhaustive scope: deterministic samples of the 2^25 / 2^36 / 2^49 digraphs on
    # 5 / 6 / 7 nodes (a defect may need a fifth node: two DFS trees plus a cross edge)
    if ctx.thorough:
        scopes += [(5, 40), (6, 1 << 17), (7, 1 << 31), (5, -1), (6, -1), (7, -7), (8, -257), (9, -9001), (10, -400009)]
        ctx.scopes.append('samples: 2^25/40 digraphs on 5 nodes, 2^19 on 6 nodes, 2^18 on 7 nodes')
        ctx.scopes.append('sparse: all functional graphs on 5 and 6 nodes (+1, +2 extra edges), samples on 7-10 nodes')
    else:
        scopes += [(5, 800), (6, 1 << 22), (7, 1 << 36), (5, -1), (6, -5), (7, -101), (8, -4001), (9, -100003), (10, -3000017)]
        ctx.scopes.append('samples: 2^25/800 digraphs on 5 nodes, 2^14 on 6 nodes, 2^13 on 7 nodes')
        ctx.scopes.append('sparse samples: functional graphs (each node one successor; +1, +2 extra edges): all on 5 nodes, strided samples on 6-10 nodes')
    ctx.exhaustive = True
    f = core.run_sharded(ctx, enum_shard, {'scopes': scopes})
    if f is not None:
        ctx.violation(_minimise(f))
        return

    f = core.run_random(ctx, random_shard, 2000, 20000)
    if f is not None:
        ctx.violation(f)
        return

    bp = {'Ns': ctx.pick([1300], [500, 1300, 3500])}
    ctx.scopes.append('size: 8 shapes (path into a loop, countdown, ring, lollipop, ladder, tree, two rings, fan) with %s nodes, built by the constructor and by add_node/add_edge'
                      % [n_ + 1 for n_ in bp['Ns']])
    f = core.run_sharded(ctx, big_shard, bp)
    if f is not None:
        ctx.violation(f)
        return

    # histories: the same graph OBJECT asked again after it grew
    if ctx.thorough:
        hp = {'scopes': [(0, 1), (1, 1), (2, 1), (3, 1), (4, 1)], 'at_upto': 3}
        ctx.scopes.append('histories: construction sequences (4 edit orders) of every digraph with n<=4 nodes, '
                          'compute_SCCs after every edit / at every single point (n<=3; one point for n=4) / twice')
    else:
        hp = {'scopes': [(0, 1), (1, 1), (2, 1), (3, 1), (4, 16)], 'at_upto': 3}
        ctx.scopes.append('histories: construction sequences (4 edit orders) of every digraph with n<=3 nodes and every '
                          '16th with 4, compute_SCCs after every edit / at every single point (n<=3) / twice')
    f = core.run_sharded(ctx, history_shard, hp)
    if f is None:
        f = core.run_random(ctx, history_random_shard, 1600, 16000)
    if f is not None:
        ctx.violation(_minimise_history(f) if f.check == 'history' else f)


def random_shard(st, shard, nshards, payload):
    from hypothesis import strategies as hs
    # random tier
    @hs.composite
    def digraphs(draw):
        n = draw(hs.integers(5, 12))     # n <= 4 is enumerated exhaustively above
        # a few dense blocks so that large components and cross edges both occur
        bits = n * n
        mask = draw(hs.integers(0, (1 << bits) - 1))
        for _ in range(draw(hs.integers(0, 3))):      # sparsify: AND of random masks
            mask &= draw(hs.integers(0, (1 << bits) - 1))
        edges = G.edges_of_mask(n, mask)
        how = draw(hs.integers(0, 5))
        naming = draw(hs.sampled_from(sorted(G.NAMINGS)))
        via = draw(hs.sampled_from(['ctor', 'incremental']))
        return {'n': n, 'edges': edges, 'how': how, 'naming': naming, 'via': via}


    def body(inp):
        edges = [tuple(e) for e in inp['edges']]
        nt = nontrivial(inp['n'], edges)
        st.random_case(inp, nt)
        st.bump('random n=%d' % inp['n'])
        if nt:
            st.sample(inp, cls='random-nt-%d' % (inp['n'] // 4))
        return check_scc(inp)

    f = core.hyp_run(payload['seed'] * 1000 + shard, digraphs(), body, payload['n'])
    if f is not None:
        st.failure = f


def _minimise(f):
    """Greedy: drop edges while the failure persists."""
    if f.check != 'scc' or 'big' in f.input:
        return f
    inp = dict(f.input)
    edges = [tuple(e) for e in inp['edges']]
    changed = True
    while changed:
        changed = False
        for e in list(edges):
            cand = dict(inp, edges=[x for x in edges if x != e])
            g = check_scc(cand)
            if g is not None:
                edges = cand['edges']
                inp = cand
                f = g
                changed = True
                break
    return f
