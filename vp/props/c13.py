"""C13 - reachability, reversal and subgraph extraction are exact and non-destructive."""
from .. import core
from ..core import Failure
from .. import graphs as G
from .c12 import build

OUTSIDERS = ['zz', -7, ('out',)]


def _names(inp):
    nm = G.NAMINGS[inp['naming']]
    return nm, [nm(i) for i in range(inp['n'])]


def _fail(inp, what, exp, got):
    return Failure(inp['op'], inp, exp, got, what)


def _txt(x):
    return sorted(map(repr, x))


def check_op(inp):
    """inp: graph case + 'op' in reach/reverse/subgraph/clone + 'X' (list of abstract nodes,
    'out:k' strings denote non-nodes) + 'xtype' container type for X."""
    n = inp['n']
    edges = [tuple(e) for e in inp['edges']]
    nm, names = _names(inp)
    try:
        g = build(inp)
    except core.HarnessError:
        raise
    except Exception as e:
        return _fail(inp, 'building the graph', 'the graph can be built', 'raised %s: %s' % (type(e).__name__, e))
    before = G.snapshot_graph(g)
    # identity of the successor sets is compared only if next() hands out stable objects
    stable = all(g.next(v) is g.next(v) for v in g.nodes())
    before_ids = dict((v, id(g.next(v))) for v in g.nodes()) if stable else None
    op = inp['op']
    Xabs = inp.get('X', [])
    X = []
    for x in Xabs:
        if isinstance(x, str) and x.startswith('out:'):
            X.append(OUTSIDERS[int(x[4:])])
        else:
            X.append(nm(x))
    xt = inp.get('xtype', 'list')
    if xt == 'set':
        Xarg = set(X)
    elif xt == 'tuple':
        Xarg = tuple(X)
    elif xt == 'frozenset':
        Xarg = frozenset(X)
    elif xt == 'keys':
        Xarg = dict((x, None) for x in X).keys()
    elif xt == 'dupes':
        Xarg = list(X) + list(reversed(X))
    else:
        Xarg = list(X)
    expE = set((nm(a), nm(b)) for a, b in edges)
    try:
        if op == 'reach':
            res = g.get_reachable_set_from(Xarg)
            exp = set(nm(i) for i in G.reachable_from(n, edges, [x for x in Xabs]))
            if not isinstance(res, set) or res != exp:
                return _fail(inp, 'reachable set differs', _txt(exp), _txt(res))
            res2 = g.get_reachable_set_from(Xarg)          # asking again gives the same answer
            if res2 != exp:
                return _fail(inp, 'second call on the same graph differs', _txt(exp), _txt(res2))
        elif op == 'reverse':
            r = g.get_reversed_graph()
            if set(r.nodes()) != set(names):
                return _fail(inp, 'reversed graph nodes differ', _txt(names), _txt(r.nodes()))
            expR = set((b, a) for a, b in expE)
            if set(r.edges()) != expR or len(r.edges()) != len(expR):
                return _fail(inp, 'reversed graph edges differ', _txt(expR), _txt(r.edges()))
            for v in names:
                if set(r.next(v)) != set(a for a, b in expE if b == v):
                    return _fail(inp, 'next() of the reversed graph differs', v, _txt(r.next(v)))
            rr = r.get_reversed_graph()
            if set(rr.nodes()) != set(names) or set(rr.edges()) != expE:
                return _fail(inp, 'reversing twice does not give back G', _txt(expE), _txt(rr.edges()))
        elif op == 'subgraph':
            sg = g.get_subgraph(Xarg)
            expV = set(X) & set(names)
            expSE = set((a, b) for a, b in expE if a in expV and b in expV)
            if set(sg.nodes()) != expV:
                return _fail(inp, 'subgraph nodes differ', _txt(expV), _txt(sg.nodes()))
            if set(sg.edges()) != expSE or len(sg.edges()) != len(expSE):
                return _fail(inp, 'subgraph edges differ', _txt(expSE), _txt(sg.edges()))
        elif op == 'clone':
            c = g.clone()
            if set(c.nodes()) != set(names) or set(c.edges()) != expE:
                return _fail(inp, 'clone differs', _txt(expE), _txt(c.edges()))
            for v in names:
                if c.next(v) is g.next(v):
                    return _fail(inp, 'clone shares a successor set with G', 'independent', 'shared')
            # mutate the clone through the public API and directly
            c.add_node('new-node')
            if names:
                c.add_edge(names[0], 'new-node')
                c.next(names[-1]).add('junk')
            if G.snapshot_graph(g) != before:
                return _fail(inp, 'mutating the clone changed G', 'G unchanged', _txt(g.edges()))
            c2 = g.clone()
            g.add_node('another')
            if names:
                g.add_edge(names[0], 'another')
            if set(c2.nodes()) != set(names) or set(c2.edges()) != expE:
                return _fail(inp, 'mutating G changed an earlier clone', _txt(expE), _txt(c2.edges()))
            return None
        else:
            raise core.HarnessError('unknown op %r' % (op,))
    except core.HarnessError:
        raise
    except Exception as e:
        return _fail(inp, 'raised', 'no exception', '%s: %s' % (type(e).__name__, e))
    after = G.snapshot_graph(g)
    if after != before:
        return _fail(inp, 'G changed by the operation', _txt(before[1]), _txt(after[1]))
    if before_ids is not None and dict((v, id(g.next(v))) for v in g.nodes()) != before_ids:
        return _fail(inp, 'G\'s successor sets were replaced', 'same objects', 'different objects')
    return None


def check_big(inp):
    """SIZE: the same four operations on a graph with hundreds to thousands of nodes (km.big_structure)."""
    from .c12 import expand_big
    f = check_op(expand_big(dict(inp, X=_big_X(inp))))
    if f is not None:
        f.input = inp                      # report the compact description
        f.check = 'big'
    return f


def _big_X(inp):
    N = inp['N']
    return {0: [0], 1: [N // 2], 2: [N], 3: [0, N], 4: list(range(0, N // 2)), 5: list(range(N // 3, N + 1))}[inp['xsel']]


def big_shard(st, shard, nshards, payload):
    from .. import km
    i = -1
    for shape in km.BIG_SHAPES:
        for N in payload['Ns']:
            for op, xsel in (('reach', 0), ('reach', 1), ('reach', 3), ('reverse', 0), ('subgraph', 4), ('subgraph', 5), ('clone', 0)):
                i += 1
                if i % nshards != shard:
                    continue
                inp = {'big': shape, 'N': N, 'op': op, 'xsel': xsel, 'how': i % 3, 'naming': ('int', 'str', 'tuple')[(i // 3) % 3],
                       'via': ('ctor', 'incremental', 'kripke')[i % 3] if shape != 'never' else 'ctor', 'xtype': ('list', 'set', 'tuple')[i % 3]}
                st.evaluations += 1
                st.nontrivial += 1
                st.bump('size: op=%s' % op)
                if xsel == 0:
                    st.sample(inp, cls='big-' + shape)
                f = check_big(inp)
                if f is not None and st.failure is None:
                    st.failure = f
                    return


def check_history(inp):
    """Every reach / reverse / subgraph / clone answer along an add_node/add_edge/query history on ONE
    graph object is exact for the graph as it is at that moment, and no query changes it."""
    from .. import ghist
    r = ghist.run(inp)
    if r is None:
        return None
    k, what, exp, got = r
    return Failure('history', inp, exp, got, 'step %d (%r): %s' % (k, inp['ops'][k], what))


CHECKS = {'reach': check_op, 'reverse': check_op, 'subgraph': check_op, 'clone': check_op,
          'history': check_history, 'big': check_big}


def replay(ctx, rec):
    return CHECKS[rec['check']](rec['input'])


def history_shard(st, shard, nshards, payload):
    from .. import ghist
    idx = 0
    for (n, step) in payload['scopes']:
        subsets = [list(X) for X in G.all_subsets(range(n))]
        for mask in range(0, 1 << (n * n), step):
            edges = G.edges_of_mask(n, mask)
            for order in range(4):
                edits = ghist.construction(n, mask, order)
                for variant in range(5):
                    idx += 1
                    if idx % nshards != shard:
                        continue

                    def q(i, v=variant, m=mask):
                        X = subsets[(i * 5 + m + v) % len(subsets)]
                        Y = subsets[(i * 3 + m // 7 + v) % len(subsets)]
                        if v == 0:
                            return [['reach', X], ['reverse'], ['subgraph', Y], ['clone'], ['reach_next', (i + m) % max(n, 1)]]
                        if v == 1:
                            return [[['reach', X]], [['reverse']], [['subgraph', Y]], [['clone']], [['fork']]][i % 5]
                        if v == 3:
                            # results the caller goes on USING: edits continue on a subgraph / a clone while
                            # the graph it came from is held, then back on that graph while the result is held
                            return [[['fork_sub', X]], [['reach', Y]], [['back']], [['fork']], [['back']], [['subgraph', Y]]][i % 6]
                        if v == 4:
                            return [[['fork_rev']], [['reach', Y]], [['back']], [['fork_sub', Y]], [['back']], [['reverse']]][(i + m) % 6]
                        return [['reverse'], ['reach', Y]] if i % 2 else [['subgraph', X], ['clone'], ['reach', X]]
                    mode = ('every', 'every', 'at', 'every', 'every')[variant]
                    inp = {'naming': ('int', 'str', 'tuple', 'opaque')[(idx // nshards) % 4],
                           'tamper': (idx // nshards) % 3 == 0,
                           'ops': ghist.interleave(edits, q, mode, (mask + order) % (len(edits) + 1))}
                    if variant >= 3 and not ghist.valid_ops(inp['ops']):
                        # an edit would repeat an edge the derived graph already has: not applicable
                        st.bump('history skipped: not applicable')
                        continue
                    st.evaluations += 1
                    nt = len(edges) >= 2 and any(a != b for a, b in edges)
                    if nt:
                        st.nontrivial += 1
                    if variant >= 3:
                        st.bump('history: edits continue on a derived graph')
                    st.bump('history n=%d' % n)
                    if nt and (idx // nshards) % 211 == 0:
                        st.sample(inp, cls='history-n%d' % n)
                    f = check_history(inp)
                    if f is not None and st.failure is None:
                        st.failure = f
                        return


def history_random_shard(st, shard, nshards, payload):
    from .. import ghist

    def body(inp):
        nq = sum(1 for op in inp['ops'] if op[0] in ('reach', 'reverse', 'subgraph', 'clone', 'fork'))
        ne = sum(1 for op in inp['ops'] if op[0] in ('node', 'edge'))
        nt = nq >= 2 and ne >= 3
        st.random_case(inp, nt)
        st.bump('random history: %d+ queries' % min(nq, 5))
        if nt:
            st.sample(inp, cls='random-history')
        return check_history(inp)

    strat = ghist.st_history(['reach', 'reach', 'reach_next', 'reverse', 'subgraph', 'clone', 'fork', 'scc_of'], max_nodes=7, max_ops=40)
    f = core.hyp_run(payload['seed'] * 1000 + 500 + shard, strat, body, payload['n'])
    if f is not None:
        st.failure = f


def _minimise_history(f):
    from .. import ghist
    inp = dict(f.input)
    ops = list(inp['ops'])
    changed = True
    while changed:
        changed = False
        for i in range(len(ops)):
            cand = ops[:i] + ops[i + 1:]
            if not ghist.valid_ops(cand):
                continue
            g = check_history(dict(inp, ops=cand))
            if g is not None:
                ops, f, changed = cand, g, True
                break
    return f


def enum_shard(st, shard, nshards, payload):
    idx = 0
    for n in payload['ns']:
        for mask in range(1 << (n * n)):
            idx += 1
            if idx % nshards != shard:
                continue
            edges = G.edges_of_mask(n, mask)
            how = idx % 6
            naming = ('int', 'str', 'revint', 'tuple', 'mixed', ('nested', 'nonefirst', 'int')[(idx // 6) % 3])[how]
            total = set(a for a, _ in edges) == set(range(n))
            via = 'kripke' if (total and idx % 5 == 0 and naming not in ('nonefirst', 'nested')) else ('incremental' if idx % 7 == 0 else 'ctor')
            base = {'n': n, 'edges': edges, 'how': how, 'naming': naming, 'via': via}
            cases = [dict(base, op='reverse'), dict(base, op='clone')]
            for X in G.all_subsets(range(n)):
                X = list(X)
                xt = ('list', 'set', 'tuple', 'frozenset', 'keys', 'dupes')[(idx + len(X)) % 6]
                cases.append(dict(base, op='reach', X=X, xtype=xt))
                cases.append(dict(base, op='subgraph', X=X, xtype=xt))
                if len(X) % 2 == idx % 2:
                    cases.append(dict(base, op='subgraph', X=X + ['out:%d' % (idx % 3)], xtype=xt))
            if n >= 3:
                # X is a tuple / frozenset that EQUALS a node of this very graph (node 2 of the 'nested' naming is
                # the pair (0, 1), node 4 the frozenset {0, 1}): it is still the collection of the nodes 0 and 1
                nb = dict(base, naming='nested', via='ctor' if base['via'] == 'kripke' else base['via'])
                for op_ in ('reach', 'subgraph'):
                    cases.append(dict(nb, op=op_, X=[0, 1], xtype='tuple'))
                    cases.append(dict(nb, op=op_, X=[0, 1], xtype='frozenset'))
            for inp in cases:
                st.evaluations += 1
                nt = False
                if inp['op'] in ('reach', 'subgraph') and 0 < len(inp['X']) and \
                        len([x for x in inp['X'] if not isinstance(x, str)]) < n:
                    if inp['op'] == 'reach':
                        nt = len(G.reachable_from(n, edges, inp['X'])) > len(inp['X'])
                    else:
                        Xs = set(x for x in inp['X'] if not isinstance(x, str))
                        nt = any((a in Xs) != (b in Xs) for a, b in edges)
                elif inp['op'] in ('reverse', 'clone'):
                    nt = any(a != b for a, b in edges)
                if nt:
                    st.nontrivial += 1
                    st.sample(inp, cls='%s-n%d' % (inp['op'], n))
                st.bump('op=%s' % inp['op'])
                f = check_op(inp)
                if f is not None and st.failure is None:
                    st.failure = f
                    return


def run(ctx):
    from hypothesis import strategies as hs
    ctx.rule = ('every labelled digraph on <= 4 nodes (one presentation/naming/construction '
                'route per graph, chosen by index) x every node subset X (list/set/tuple) for '
                'get_reachable_set_from and get_subgraph (also X with a non-node), plus reversal '
                '(and double reversal) and clone with mutation on both sides; random digraphs to '
                '12 nodes; HISTORIES on one graph object (add_node / add_edge interleaved with reach, reverse, '
                'subgraph, clone queries, continuing on a clone while the original must stay put).  Oracle: definitions computed from the edge set; G snapshot before = '
                'after.  Non-trivial: reach adds a node to a proper non-empty X; subgraph cuts '
                'at least one edge; reverse/clone on a graph with a non-loop edge.')
    ctx.scopes = ['all digraphs with n<=4 nodes x all node subsets']
    ctx.exhaustive = True
    f = core.run_sharded(ctx, enum_shard, {'ns': [0, 1, 2, 3, 4]})
    if f is not None:
        ctx.violation(f)
        return

    f = core.run_random(ctx, random_shard, 2000, 20000)
    if f is not None:
        ctx.violation(f)
        return

    bp = {'Ns': ctx.pick([1300], [500, 1300, 3500])}
    ctx.scopes.append('size: 8 shapes with %s nodes x reach from the first / middle / first+last node, reverse, two subgraphs, clone' % [n_ + 1 for n_ in bp['Ns']])
    f = core.run_sharded(ctx, big_shard, bp)
    if f is not None:
        ctx.violation(f)
        return

    # histories: the same graph OBJECT queried again after it grew
    hp = {'scopes': [(0, 1), (1, 1), (2, 1), (3, 1), (4, 5 if ctx.thorough else 61)]}
    ctx.scopes.append('histories: construction sequences (4 edit orders) of every digraph with n<=3 nodes and every '
                      '%s with 4, with reach/reverse/subgraph/clone/fork queries after every edit or at one point'
                      % ('5th' if ctx.thorough else '61st'))
    f = core.run_sharded(ctx, history_shard, hp)
    if f is None:
        f = core.run_random(ctx, history_random_shard, 1600, 16000)
    if f is not None:
        ctx.violation(_minimise_history(f) if f.check == 'history' else f)


def random_shard(st, shard, nshards, payload):
    from hypothesis import strategies as hs
    @hs.composite
    def cases(draw):
        n = draw(hs.integers(5, 12))
        bits = n * n
        mask = draw(hs.integers(0, (1 << bits) - 1))
        for _ in range(draw(hs.integers(0, 3))):
            mask &= draw(hs.integers(0, (1 << bits) - 1))
        edges = G.edges_of_mask(n, mask)
        op = draw(hs.sampled_from(['reach', 'reverse', 'subgraph', 'clone']))
        X = draw(hs.lists(hs.integers(0, n - 1), unique=True, max_size=n))
        if op == 'subgraph' and draw(hs.booleans()):
            X = X + ['out:%d' % draw(hs.integers(0, 2))]
        return {'n': n, 'edges': edges, 'how': draw(hs.integers(0, 5)),
                'naming': draw(hs.sampled_from(sorted(G.NAMINGS))),
                'via': draw(hs.sampled_from(['ctor', 'incremental'])), 'op': op, 'X': X,
                'xtype': draw(hs.sampled_from(['list', 'set', 'tuple', 'frozenset', 'keys', 'dupes']))}


    def body(inp):
        st.random_case(inp, bool(inp['edges']) and (inp['op'] in ('reverse', 'clone') or 0 < len(inp['X']) < inp['n']))
        st.bump('random op=%s' % inp['op'])
        return check_op(inp)

    f = core.hyp_run(payload['seed'] * 1000 + shard, cases(), body, payload['n'])
    if f is not None:
        st.failure = f
