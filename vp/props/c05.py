"""C05 - rewriting to the restricted syntax and LNot preserve meaning."""
from .. import core, fm, km, ref
from ..core import Failure

LOGICS = ['CTLS', 'CTL', 'LTL']
ELIMINATED = set(['and', 'imp', 'F', 'G', 'R', 'A'])


def in_domain(logic, t):
    if logic == 'CTLS':
        return True
    if logic == 'CTL':
        return fm.ctl_state(t)
    return fm.ltl_path(t)


def alphabet_problem(logic, t, parent=None):
    """None if the tree uses only the restricted alphabet documented for the logic."""
    k = t[0]
    if k in ('ap', 'true', 'false'):
        return None
    if logic == 'CTL':
        if k in ('not', 'or'):
            pass
        elif k == 'E':
            if t[1][0] not in ('X', 'U', 'G'):
                return 'E followed by %s' % t[1][0]
        elif k in ('X', 'U', 'G'):
            if parent != 'E':
                return '%s not directly under E' % k
        else:
            return 'operator %s' % k
    elif logic == 'CTLS':
        if k not in ('not', 'or', 'X', 'U', 'E'):
            return 'operator %s' % k
    else:
        if k not in ('not', 'or', 'X', 'U'):
            return 'operator %s' % k
    for c in t[1:]:
        p = alphabet_problem(logic, c, k)
        if p:
            return p
    return None


_models = {}


def models(scope):
    """[(Model, lassos)] for the structures of a named scope (cached per process)."""
    if scope not in _models:
        out = []
        ns, L, stride = scope
        for n in ns:
            for i, K in enumerate(km.scope(n)):
                if n >= 3 and i % stride:
                    continue
                if n == 2 and stride < 0 and i % (-stride):
                    continue            # quick tier: every (-stride)-th structure of S(2)
                M = ref.Model(K)
                las = []
                for s in range(n):
                    las.extend(ref.all_lassos(M, s, L))
                out.append((M, las))
        _models[scope] = out
    return _models[scope]


def equivalent(t1, t2, scope):
    """None, or a description of a structure/path on which the two formulas differ."""
    if t1 == t2:
        return None
    state = ref.is_state_like(t1) and ref.is_state_like(t2)
    for (M, lassos) in models(scope):
        if state:
            memo = {}
            a = ref.star_eval(M, t1, None, memo)
            b = ref.star_eval(M, t2, None, memo)
            if a != b:
                return {'K': M.K, 'original_holds_at': ref.mask_to_list(a),
                        'result_holds_at': ref.mask_to_list(b)}
        else:
            memo = {}
            g1 = ref.abstract(M, t1, None, memo)
            g2 = ref.abstract(M, t2, None, memo)
            for (states, j) in lassos:
                if ref.path_eval(states, j, g1) != ref.path_eval(states, j, g2):
                    return {'K': M.K, 'path': states, 'loop_start': j,
                            'original': ref.path_eval(states, j, g1),
                            'result': ref.path_eval(states, j, g2)}
    return None


def scope_of(inp):
    return tuple(inp.get('scope') or ((1, 2), 4, 1))


def _scope_key(sc):
    return (tuple(sc[0]), sc[1], sc[2])


def check_restricted(inp):
    logic = inp['logic']
    t = fm.from_json(inp['f'])
    L = fm.lang(logic)
    sc = _scope_key(scope_of(inp))
    try:
        # every other size class is built with equal subformulas as ONE object (req = p and q; G(req --> F req))
        obj = fm.to_lib(t, L, raw_leaves=(fm.size(t) % 3 == 1), share={} if fm.size(t) % 2 == 0 else None)
    except Exception as e:
        raise core.HarnessError('cannot build %r in %s: %s' % (t, logic, e))
    try:
        r = obj.get_equivalent_restricted_formula()
        rt = fm.structure(r)
        # asking the same object again gives the same formula
        rt2 = fm.structure(obj.get_equivalent_restricted_formula())
    except Exception as e:
        return Failure('restricted', inp, 'a formula', 'raised %s: %s' % (type(e).__name__, str(e)[:150]))
    if rt2 != rt:
        return Failure('restricted', inp, list(rt), list(rt2), 'the second call on the same object gives another formula')
    p = alphabet_problem(logic, rt)
    if p:
        return Failure('restricted', inp, 'restricted alphabet of %s' % logic, list(rt), p)
    bad = fm.foreign_node(r, logic)
    if bad:
        return Failure('restricted', inp, 'a %s object' % logic, bad)
    if fm.structure(obj) != t:
        return Failure('restricted', inp, 'input formula unchanged', list(fm.structure(obj)))
    d = equivalent(t, rt, sc)
    if d:
        return Failure('restricted', inp, 'an equivalent formula', {'result': list(rt), 'differs_on': d})
    if t[0] not in fm.LEAF and fm.size(t) % 3 != 2:
        # the formula object is EDITED IN PLACE through the documented wrap_subformulas ("replaces the
        # subformulas of the current object"): the operands of the root (or of its first operand) are
        # replaced by themselves with p and q swapped.  The rewriting of the edited object must be
        # the rewriting of an equal formula built afresh.
        swap = {'p': 'q', 'q': 'p'}
        deep = fm.size(t) % 3 == 1 and t[1][0] not in fm.LEAF
        try:
            node = obj.subformula(0) if deep else obj
            nt_ = t[1] if deep else t
            node.wrap_subformulas([fm.to_lib(fm.rename_atoms(c, swap), L) for c in nt_[1:]], L.Formula)
            t2 = (t[0], (nt_[0],) + tuple(fm.rename_atoms(c, swap) for c in nt_[1:])) + t[2:] if deep else \
                (t[0],) + tuple(fm.rename_atoms(c, swap) for c in t[1:])
            edited_ok = fm.structure(obj) == t2
        except Exception:
            edited_ok = False                # the edit itself is not this property's business
        if edited_ok:
            try:
                rt3 = fm.structure(obj.get_equivalent_restricted_formula())
                want = fm.structure(fm.to_lib(t2, L).get_equivalent_restricted_formula())
            except Exception as e:
                return Failure('restricted', inp, 'a formula', 'raised %s: %s after the formula was edited in place' % (type(e).__name__, str(e)[:150]))
            if rt3 != want:
                return Failure('restricted', inp, list(want), list(rt3),
                               'after wrap_subformulas() replaced %s operands (p and q swapped) the object is %s, but its rewriting is not that of an equal formula built afresh'
                               % ('the first operand\'s' if deep else 'the root\'s', fm.to_text(t2)))
    return None


def check_lnot(inp):
    from pyModelChecking.language import LNot
    logic = inp['logic']
    t = fm.from_json(inp['f'])
    L = fm.lang(logic)
    sc = _scope_key(scope_of(inp))
    try:
        obj = fm.to_lib(t, L, raw_leaves=(fm.size(t) % 3 == 1), share={} if fm.size(t) % 2 == 0 else None)
    except Exception as e:
        raise core.HarnessError('cannot build %r in %s: %s' % (t, logic, e))
    try:
        r = LNot(obj)
        rt = fm.structure(r)
    except Exception as e:
        return Failure('lnot', inp, 'a formula', 'raised %s: %s' % (type(e).__name__, str(e)[:150]))
    if rt[0] == 'not' and rt[1][0] == 'not':
        return Failure('lnot', inp, 'no two leading negations', list(rt))
    if fm.kind(logic, rt) is None:
        return Failure('lnot', inp, 'a %s formula' % logic, list(rt))
    if fm.structure(obj) != t:
        return Failure('lnot', inp, 'input formula unchanged', list(fm.structure(obj)))
    d = equivalent(('not', t), rt, sc)
    if d:
        return Failure('lnot', inp, 'equivalent to not f', {'result': list(rt), 'differs_on': d})
    if logic == 'CTLS' and t[0] == 'not':
        # the same formula assembled ACROSS languages: CTL* nodes on top of CTL / LTL formula objects
        # (CTL.Formula and LTL.Formula are CTL* formulas; the CTL* constructors take them as they are),
        # the boundary after the first, second, ... negation
        depth_, x = 0, t
        while x[0] == 'not':
            depth_, x = depth_ + 1, x[1]
        for sib in ('CTL', 'LTL'):
            for cut in range(1, depth_ + 1):
                inner = t
                for _ in range(cut):
                    inner = inner[1]
                if fm.kind(sib, inner) is None:
                    continue
                try:
                    mixed = fm.to_lib(inner, fm.lang(sib))
                    for _ in range(cut):
                        mixed = L.Not(mixed)
                    if fm.structure(mixed) != t:
                        continue
                    rt2 = fm.structure(LNot(mixed))
                except TypeError:
                    continue                          # a library that refuses the mix puts it outside the domain
                except Exception as e:
                    return Failure('lnot', inp, 'a formula', 'raised %s: %s' % (type(e).__name__, str(e)[:150]),
                                   'CTL* negations on top of a %s object, boundary after %d negation(s)' % (sib, cut))
                if rt2[0] == 'not' and rt2[1][0] == 'not':
                    return Failure('lnot', inp, 'no two leading negations', list(rt2),
                                   'CTL* negations on top of a %s object, boundary after %d negation(s)' % (sib, cut))
                if rt2 != rt:
                    d = equivalent(('not', t), rt2, sc)
                    if d:
                        return Failure('lnot', inp, 'equivalent to not f', {'result': list(rt2), 'differs_on': d},
                                       'CTL* negations on top of a %s object' % sib)
    return None


CHECKS = {'restricted': check_restricted, 'lnot': check_lnot}


def replay(ctx, rec):
    return CHECKS[rec['check']](rec['input'])


def has_not(logic, t):
    """`not t` exists in t's logic."""
    return fm.kind(logic, ('not', t)) is not None


def scope_formulas(logic, k):
    if logic == 'CTLS':
        un = fm.LTL_UN + [('A', lambda f: ('A', f)), ('E', lambda f: ('E', f))]
        return fm.enum_upto(un, fm.LTL_BIN, fm.LEAVES4, k)
    if logic == 'CTL':
        return fm.ctl_formulas(k)
    return fm.ltl_paths(k)


def is_nontrivial(t):
    if fm.ops(t) & ELIMINATED:
        return True
    return any(s == ('not', fm.FALSE) or s == ('not', ('not', s[1][1] if len(s[1]) > 1 else None))
               for s in fm.subformulas(t) if s[0] == 'not')


def deep_temporal(full):
    """Path formulas where rewrite rules for nested temporal operators interact:
    'ttt' = exactly three operators, all temporal, over {p,q} (1 382 formulas), and unary chains
    of length 3..4 (5 with full=True) over not/X/F/G applied to p, p U q, p R q, p and q."""
    leaves2 = (fm.P, fm.Q)
    tun = [x for x in fm.LTL_UN if x[0] != 'not']
    tbin = [x for x in fm.LTL_BIN if x[0] in ('U', 'R')]
    out = fm.enum_exact(tun, tbin, leaves2, 3)
    bases = [fm.P, ('U', fm.P, fm.Q), ('R', fm.P, fm.Q), ('and', fm.P, fm.Q)]
    level = list(bases)
    for depth_ in range(1, (5 if full else 4) + 1):
        level = [(o, f) for o in ('not', 'X', 'F', 'G') for f in level]
        if depth_ >= 3:
            out += level
    out += fm.ltl_nary()[::3]
    return out


def enum_shard(st, shard, nshards, payload):
    sc = _scope_key(payload['scope'])
    idx = -1
    deep = deep_temporal(payload.get('deep_full', False))
    for logic in LOGICS:
        forms = scope_formulas(logic, payload['k'])
        if logic in payload.get('deep_logics', ()):
            forms = forms + deep
        # a repeated one-operator subformula inside every context of <= 2 operators (strided)
        if logic == 'CTLS':
            for base in (fm.P, ('E', ('X', fm.Q)), ('A', ('G', fm.P)), ('G', fm.P)):
                x = base
                for _ in range(5):
                    x = ('not', x)
                    forms = forms + [x]
        cs = payload.get('ctx_stride', 0)
        if cs:
            forms = forms + {'CTL': lambda: fm.ctl_context(cs * 2), 'LTL': lambda: fm.ltl_context()[::cs],
                             'CTLS': lambda: fm.ctls_context_q()[::cs] + [('E', g) for g in fm.ltl_context()[5::cs * 3]]}[logic]()
        for t in forms:
            idx += 1
            if idx % nshards != shard:
                continue
            inp = {'logic': logic, 'f': t, 'scope': list(sc)}
            st.evaluations += 1
            nt = is_nontrivial(t)
            if nt:
                st.nontrivial += 1
                for o in sorted(fm.ops(t) & ELIMINATED):
                    st.bump('%s eliminates %s' % (logic, o))
            f = check_restricted(inp)
            if f is None and has_not(logic, t):
                st.evaluations += 1
                st.bump('%s LNot' % logic)
                if t[0] == 'not':
                    st.bump('LNot of a negation')
                f = check_lnot(inp)
            if f is not None:
                if st.failure is None:
                    st.failure = f
                return
            if nt and idx % 301 == 0:
                st.sample({'logic': logic, 'f': t}, cls='%s-%s' % (logic, t[0]))


def unary_variant(t, which):
    """t with its which-th (preorder, modulo) non-leaf subformula x wrapped as ('and', x) or ('or', x)."""
    subs = [x for x in fm.subformulas(t) if x[0] not in fm.LEAF]
    if not subs:
        return t
    target = subs[which % len(subs)]
    op = 'and' if which % 2 else 'or'

    def rec(x):
        if x == target:
            return (op, x)
        if x[0] in fm.LEAF:
            return x
        return (x[0],) + tuple(rec(c) for c in x[1:])
    return rec(t)


def random_shard(st, shard, nshards, payload):
    from hypothesis import strategies as hs
    sc = _scope_key(payload['scope'])
    cases = hs.one_of(
        hs.tuples(hs.just('CTLS'), fm.st_formula('ctls_path', max_depth=4, max_temporal=4)),
        hs.tuples(hs.just('CTLS'), fm.st_formula('ctls_state', max_depth=4, max_temporal=4)),
        hs.tuples(hs.just('CTL'), fm.st_formula('ctl', max_depth=4)),
        hs.tuples(hs.just('LTL'), fm.st_formula('ltl_path', max_depth=4, max_temporal=5)),
    )

    def body(c):
        logic, t = c
        t = fm.from_json(t)
        if not in_domain(logic, t):
            raise core.HarnessError('generator left the domain: %r' % (c,))
        inp = {'logic': logic, 'f': t, 'scope': list(sc)}
        nt = is_nontrivial(t)
        st.random_case(inp, nt)
        st.bump('random %s depth %d' % (logic, fm.depth(t)))
        if nt:
            st.sample(inp, cls='random-%s-%d' % (logic, fm.depth(t)))
        f = check_restricted(inp)
        if f is None and has_not(logic, t):
            f = check_lnot(inp)
        if f is None and fm.size(t) % 3 == 0:
            # and / or nodes with ONE operand: not in the documented syntax, but the constructors
            # build them ('and p'); where they do, the rewriting must still be equivalent.  A library
            # that refuses them (TypeError) puts them outside the domain: skipped, never an alarm.
            t1 = unary_variant(t, fm.size(t) // 3)
            if t1 != t:
                try:
                    fm.to_lib(t1, fm.lang(logic))
                except TypeError:
                    st.bump('one-operand and/or refused by the constructors (skipped)')
                    return None
                st.bump('random: formula with a one-operand and/or node')
                f = check_restricted(dict(inp, f=t1))
        return f

    f = core.hyp_run(payload['seed'] * 1000 + shard, cases, body, payload['n'])
    if f is not None:
        st.failure = f


def run(ctx):
    ctx.rule = ('every CTL* formula (state and path), CTL state formula and LTL path formula with '
                '<= 2 operators over {p,q,true,false}, and Hypothesis formulas to depth 4 with n-ary '
                'and/or.  (a) syntactic walk of the result: only not, or, X, U, E, atoms and Booleans '
                '(CTL: E only with X/U/G, no bare temporal operator; LTL: no quantifier), every node '
                'an object of the input\'s language; (b) equivalence decided by the reference: state '
                'formulas by R-STAR on every structure of S(1)+S(2) (thorough: + a stride of S(3)), '
                'path formulas by R-PATH at every position of every lasso with |prefix|+|loop| <= 4 '
                '(thorough 5) of those structures, quantified subformulas evaluated by R-STAR; '
                '(c) LNot(f): no two leading negations, a formula of the logic, equivalent to not f.  '
                'The library\'s rewrite rules are never consulted.  Non-trivial = f contains an '
                'operator the rewrite must eliminate (and, -->, F, G, R, A) or a negated constant / '
                'double negation.')
    scope = [[1, 2], 4, -3] if not ctx.thorough else [[1, 2, 3], 5, 331]
    k = 2
    ctx.scopes = ['all formulas with <= %d operators of CTL*, CTL, LTL' % k,
                  'all path formulas with exactly 3 operators, all temporal, over {p,q}, and all unary chains of length '
                  '3..%d over not/X/F/G applied to p, p U q, p R q, p and q (%s)' % (
                      5 if ctx.thorough else 4, 'LTL and CTL* objects' if ctx.thorough else 'LTL objects'),
                  'equivalence on S(1)+%s, lassos <= %d' % ('S(2) + every 331st of S(3)' if ctx.thorough else 'every 3rd structure of S(2)', scope[1])]
    ctx.exhaustive = True
    ctx.assumptions = ['reference semantics vp/ref.py is the trusted base; equivalence is decided on '
                       'the small scope only (a difference needing a larger structure or longer lasso is out of reach)',
                       'LTL.A(g).get_equivalent_restricted_formula() is outside the domain (the restricted LTL alphabet has no quantifier)']
    ctx.scopes.append('every %dth formula of the context families (a repeated one-operator subformula inside every context of <= 2 operators); '
                      'formulas of even size are built with equal subformulas as one shared object, one size class in three with atoms and constants given as bare str / bool' % ctx.pick(97, 23))
    f = core.run_sharded(ctx, enum_shard, {'k': k, 'scope': scope, 'deep_full': ctx.thorough, 'ctx_stride': ctx.pick(97, 23),
                                           'deep_logics': ['LTL', 'CTLS'] if ctx.thorough else ['LTL']})
    if f is not None:
        ctx.violation(f)
        return
    shards, n = ctx.pick((16, 40), (16, 500))
    f = core.run_sharded(ctx, random_shard, {'seed': ctx.seed, 'n': n, 'scope': [[1, 2], 4, -3 if not ctx.thorough else 1]}, nshards=shards)
    if f is not None:
        ctx.violation(f)
