"""C06 - answers are independent of presentation order, naming and hash seed."""
import json
import os
import shutil
import subprocess
import sys
import tempfile

from .. import core, fm, km, mc, ref
from ..core import Failure
from .. import graphs

NAMINGS = ['str', 'revint', 'tuple', 'mixed', 'strcollide', 'strlen', 'opaque', 'zigzag', 'numeq', 'fsets']
CONTAINERS = ['list', 'set', 'tuple']
ATOM_MAPS = [{'p': 'alpha_long_name', 'q': 'Zq'}, {'p': 'q', 'q': 'p'}, {'p': 'a b', 'q': 'x-1'},
             {'p': 'pp', 'q': 'p_'}, {'p': 'fairness', 'q': 'E'}, {'p': 'q', 'q': 'qq'},
             {'p': 'p', 'q': 'p0'}, {'p': 'z', 'q': 'a'}, {'p': '[E(X(q))]', 'q': 'q'},
             {'p': '{p}', 'q': 'q{0}'}, {'p': 'p%s', 'q': '%(q)s'}, {'p': 'p}', 'q': '{'}]


def top(checker, f):
    return ('A', f) if checker == 'LTL' else f


def permute(K, perm):
    """Relabel the harness states: old state i becomes perm[i]."""
    n = K['n']
    labels = [None] * n
    for i in range(n):
        labels[perm[i]] = list(K['labels'][i])
    return km.make(n, [[perm[a], perm[b]] for a, b in K['edges']], labels)


def rename_K(K, m):
    return dict(K, labels=[[m.get(a, a) for a in l] for l in K['labels']])


def extend(K, ext):
    """Add states that are not reachable from K's states.  ext: {'m': count, 'internal':
    [[a, b]] edges among the new states (indices 0..m-1), 'into': [[a, k]] edges from new state a
    to old state k, 'labels': [[..]]}.  Totality of the new states is ensured by a self-loop
    where a new state would otherwise have no successor."""
    n, m = K['n'], ext['m']
    edges = [list(e) for e in K['edges']]
    has = set()
    for a, b in ext['internal']:
        edges.append([n + a % m, n + b % m])
        has.add(a % m)
    for a, k in ext['into']:
        edges.append([n + a % m, k % n])
        has.add(a % m)
    for a in range(m):
        if a not in has:
            edges.append([n + a, n + a])
    labels = [list(l) for l in K['labels']] + [list(ext['labels'][a % len(ext['labels'])]) if ext['labels'] else []
                                               for a in range(m)]
    return km.make(n + m, [list(e) for e in set(map(tuple, edges))], labels)


def check_invariance(inp):
    """inp: {'K','f','checker','perm','naming','how','containers','atoms','ext'}"""
    K = inp['K']
    checker = inp['checker']
    f = top(checker, fm.from_json(inp['f']))
    n = K['n']
    base = mc.call(checker, K, f, 'int', 0, 'list')
    if base[0] != 'set':
        return Failure('invariance', inp, 'a set of states', mc.show(base), 'base presentation')
    full = (1 << n) - 1

    def expect(what, out, exp):
        if out != ('set', exp):
            return Failure('invariance', inp, mc.show_mask(exp), mc.show(out), what)
        return None

    # 1. state bijection + naming + collection orders + container types
    perm = inp['perm']
    Kp = permute(K, perm)
    exp = 0
    for i in range(n):
        if (base[1] >> i) & 1:
            exp |= 1 << perm[i]
    out = mc.call(checker, Kp, f, inp['naming'], inp['how'], inp['containers'])
    r = expect('state bijection %s, naming %s, order %d, %s containers' % (
        perm, inp['naming'], inp['how'], inp['containers']), out, exp)
    if r:
        return r
    # 2. consistent renaming of atomic propositions
    m = ATOM_MAPS[inp['atoms'] % len(ATOM_MAPS)]
    out = mc.call(checker, rename_K(K, m), fm.rename_atoms(f, m), 'int', inp['how'], 'list',
                  form='obj' if inp['atoms'] % 2 else 'text')
    r = expect('atoms renamed %s' % (m,), out, base[1])
    if r:
        return r
    # 2b. an atom that does not occur in the formula, under a harmless and under adversarial names
    #     (the names the checkers generate themselves: '[<quantified subformula>]', 'fair', ...):
    #     renaming an unused atom is a consistent renaming and cannot change the answer
    if inp.get('extra'):
        where = [i % n for i in inp['extra']['states']]
        names = ['r_unused'] + adversarial_names(f)
        name = names[inp['extra']['name'] % len(names)]
        for nm_ in ('r_unused', name):
            Ke = dict(K, labels=[list(l) + ([nm_] if i in where else []) for i, l in enumerate(K['labels'])])
            out = mc.call(checker, Ke, f, 'int', inp['how'], 'list')
            r = expect('extra atom %r (not in the formula) labelling states %s' % (nm_, sorted(set(where))), out, base[1])
            if r:
                return r
    # 3. states that are not reachable from the queried ones
    if inp.get('ext'):
        Kx = extend(K, inp['ext'])
        out = mc.call(checker, Kx, f, inp['naming'], inp['how'], 'list')
        if out[0] != 'set':
            return Failure('invariance', inp, 'a set of states', mc.show(out), 'extended structure')
        if out[1] & full != base[1]:
            return Failure('invariance', inp, mc.show_mask(base[1]), mc.show_mask(out[1] & full),
                           'answer restricted to the old states after adding %d states not reachable from them'
                           % inp['ext']['m'])
    return None


def adversarial_names(f):
    """Atom names that look like the ones the checkers generate for the query f."""
    out = ['fair', 'fair0', 'fair1', '[true]', 'true', 'A', '[p]']
    L = fm.lang('CTLS')
    for sub in fm.subformulas(f):
        if sub[0] in fm.QUANT:
            try:
                printed = str(fm.to_lib(sub, L))
            except Exception:
                continue
            out += ['[%s]' % printed, '[[%s](0)]' % printed, '[%s(0)]' % printed]
            # also the body with inner quantifiers already replaced, as the checker sees it
            out.append('[%s]' % printed.replace(' ', ''))
    return out


def check_hashseed(inp):
    """Replay of a hash-seed disagreement: {'case': {...}, 'seeds': [..]}."""
    res = run_seeds([inp['case']], inp['seeds'])
    vals = set(json.dumps(r[0]) for r in res.values())
    exp = reference(inp['case'])
    if len(vals) > 1 or any(r[0] != exp for r in res.values()):
        return Failure('hashseed', inp, exp, dict((str(k), v[0]) for k, v in res.items()),
                       'answers differ between PYTHONHASHSEED values or from the reference')
    return None


CHECKS = {'invariance': check_invariance, 'hashseed': check_hashseed}


def replay(ctx, rec):
    return CHECKS[rec['check']](rec['input'])


def reference(case):
    M = ref.Model(case['K'])
    return ['set', ref.star_eval(M, fm.from_json(case['f']))]     # 'f' is the complete state formula


def run_seeds(corpus, seeds):
    """{seed: [result per case]} from one fresh interpreter per PYTHONHASHSEED value."""
    d = tempfile.mkdtemp(prefix='vp_c06_')
    try:
        path = os.path.join(d, 'corpus.json')
        with open(path, 'w') as fh:
            json.dump(corpus, fh)
        procs = {}
        for s in seeds:
            env = dict(os.environ, PYTHONHASHSEED=str(s), PYTHONDONTWRITEBYTECODE='1',
                       PYTHONPATH=core.VERIF, VERIF_REPO=core.REPO)
            procs[s] = subprocess.Popen([sys.executable, '-m', 'vp.hashworker', path], cwd=core.VERIF,
                                        env=env, stdout=subprocess.PIPE, stderr=subprocess.PIPE, text=True)
        out = {}
        for s, p in procs.items():
            so, se = p.communicate(timeout=3000)
            line = [l for l in so.splitlines() if l.startswith('C06-RESULTS ')]
            if p.returncode != 0 or not line:
                raise core.HarnessError('hash worker for seed %s failed: %s' % (s, se[-500:]))
            out[s] = json.loads(line[0][len('C06-RESULTS '):])
        return out
    finally:
        shutil.rmtree(d, ignore_errors=True)


def make_corpus(seed_value, n):
    """Deterministic corpus of cases with string states and multi-character atoms."""
    from hypothesis import strategies as hs
    atoms = ('alpha_long_name', 'Zq')
    cases = []
    strat = hs.one_of(
        hs.tuples(hs.just('LTL'), fm.st_formula('ltl_path', atoms, max_depth=3, max_temporal=3)),
        hs.tuples(hs.just('LTL'), fm.st_formula('ltl_path', atoms, max_depth=3, max_temporal=2)),
        hs.tuples(hs.just('CTLS'), fm.st_formula('ctls_state', atoms, max_depth=3, max_temporal=2)),
        hs.tuples(hs.just('CTL'), fm.st_formula('ctl', atoms, max_depth=3)),
    )
    both = hs.tuples(km.st_kripke(1, 4, atoms), strat, hs.sampled_from(['str', 'mixed', 'tuple', 'strcollide', 'strlen']),
                     hs.integers(0, 5))

    def body(c):
        K, (checker, f), naming, how = c
        cases.append({'K': K, 'f': top(checker, fm.from_json(f)), 'checker': checker, 'naming': naming, 'how': how})
        return None

    core.hyp_run(seed_value, both, body, n, shrink=False)
    # formulas in which two DIFFERENT temporal subformulas interact (F q with p U q, G p with q R p, ...):
    # tables keyed by a part of a subformula, iterated in hash order, only matter there
    from .c02 import temporal_pairs
    pairs = temporal_pairs()
    m = {'p': atoms[0], 'q': atoms[1]}
    k3 = list(km.scope(3))
    for i, g in enumerate(pairs[seed_value % 7::max(1, (len(pairs) * 3) // max(n, 1))]):
        K = km.rename_labels(k3[(i * 7919 + seed_value * 31) % len(k3)], m)
        checker = ('LTL', 'CTLS')[i % 2]
        cases.append({'K': K, 'f': top('LTL', fm.rename_atoms(g, m)), 'checker': checker,
                      'naming': ('str', 'mixed', 'tuple', 'strlen')[i % 4], 'how': i % 6})
    # distinct cases only, stable order
    seen = set()
    out = []
    for c in cases:
        k = core.canon(c)
        if k not in seen:
            seen.add(k)
            out.append(c)
    return out


def random_shard(st, shard, nshards, payload):
    from hypothesis import strategies as hs

    @hs.composite
    def cases(draw):
        checker = draw(hs.sampled_from(['CTL', 'CTL', 'LTL', 'CTLS']))
        # the CTL checker is cheap: larger structures there (order effects need room)
        K = draw(km.st_kripke(1, 7 if checker == 'CTL' else 4))
        n = K['n']
        f = draw({'CTL': fm.st_formula('ctl', max_depth=3),
                  'LTL': fm.st_formula('ltl_path', max_depth=3, max_temporal=2),
                  'CTLS': fm.st_formula('ctls_state', max_depth=3, max_temporal=2)}[checker])
        if checker != 'CTL' and draw(hs.integers(0, 2)) == 0:
            # two different temporal subformulas that interact (F q with p U q, G p with q R p, ...)
            from .c02 import temporal_pairs
            pairs = temporal_pairs()
            g = pairs[draw(hs.integers(0, len(pairs) - 1))]
            f = g if checker == 'LTL' else (draw(hs.sampled_from(['A', 'E'])), g)
        ext = None
        if draw(hs.booleans()):
            m = draw(hs.integers(1, 2))
            ext = {'m': m,
                   'internal': draw(hs.lists(hs.tuples(hs.integers(0, 1), hs.integers(0, 1)).map(list), max_size=3)),
                   'into': draw(hs.lists(hs.tuples(hs.integers(0, 1), hs.integers(0, 3)).map(list), max_size=3)),
                   'labels': draw(hs.lists(hs.sampled_from([[], ['p'], ['q'], ['p', 'q']]), min_size=1, max_size=2))}
        return {'K': K, 'f': f, 'checker': checker, 'perm': list(draw(hs.permutations(list(range(n))))),
                'naming': draw(hs.sampled_from(NAMINGS)), 'how': draw(hs.integers(0, 5)),
                'containers': draw(hs.sampled_from(CONTAINERS)), 'atoms': draw(hs.integers(0, 9)), 'ext': ext,
                'extra': {'states': draw(hs.lists(hs.integers(0, 6), min_size=1, max_size=3)),
                          'name': draw(hs.integers(0, 40))} if draw(hs.booleans()) else None}

    def body(inp):
        f = check_invariance(inp)
        base = mc.call(inp['checker'], inp['K'], top(inp['checker'], fm.from_json(inp['f'])))
        full = (1 << inp['K']['n']) - 1
        nt = base[0] == 'set' and base[1] not in (0, full) and inp['perm'] != sorted(inp['perm'])
        st.random_case(inp, nt)
        st.bump('checker ' + inp['checker'])
        st.bump('naming ' + inp['naming'])
        if inp['ext']:
            st.bump('with unreachable extension')
        if nt:
            st.sample(inp, cls='%s-%s' % (inp['checker'], inp['naming']))
        return f

    f = core.hyp_run(payload['seed'] * 1000 + shard, cases(), body, payload['n'])
    if f is not None:
        st.failure = f


NAMING_FORMULAS = [('CTL', ('E', ('G', fm.P))), ('CTL', ('A', ('F', ('not', fm.P)))), ('CTL', ('E', ('U', fm.P, fm.Q))),
                   ('CTL', ('A', ('X', fm.P))), ('CTL', ('E', ('R', fm.Q, fm.P))), ('CTL', ('A', ('G', ('E', ('F', fm.Q))))),
                   ('CTLS', ('E', ('G', ('F', fm.P)))), ('CTLS', ('A', ('U', fm.P, ('X', fm.Q)))), ('CTLS', ('E', ('G', fm.P))),
                   ('LTL', ('G', ('F', fm.P))), ('LTL', ('U', fm.P, fm.Q)), ('LTL', ('X', ('not', fm.Q)))]


def check_naming(inp):
    """The same structure under one state NAMING and under plain 0..n-1: the answers are images of each
    other (mc.call maps both back to the abstract states)."""
    K, checker = inp['K'], inp['checker']
    f = top(checker, fm.from_json(inp['f']))
    base = mc.call(checker, K, f, 'int', 0)
    out = mc.call(checker, K, f, inp['naming'], inp.get('how', 0), inp.get('containers', 'list'))
    if out != base:
        return Failure('naming', inp, mc.show(base), mc.show(out),
                       'states named by %r instead of 0..n-1' % inp['naming'])
    return None


CHECKS['naming'] = check_naming


def naming_shard(st, shard, nshards, payload):
    """Systematic: every structure of the small scope x a dozen formulas x EVERY state naming."""
    names = sorted(k for k in graphs.NAMINGS if k != 'nonefirst')      # None is never a Kripke state (labels(None) = all labels)
    i = -1
    for n, stride in payload['scopes']:
        for j, K in enumerate(km.scope(n)):
            if j % stride:
                continue
            for fi, (checker, f) in enumerate(NAMING_FORMULAS):
                if checker != 'CTL' and (j // stride + fi) % payload['slow_stride']:
                    continue
                for ni, naming in enumerate(names):
                    i += 1
                    if i % nshards != shard or naming == 'int':
                        continue
                    inp = {'K': K, 'checker': checker, 'f': f, 'naming': naming, 'how': (j + ni) % 6,
                           'containers': CONTAINERS[(j + fi) % 3]}
                    st.evaluations += 1
                    st.bump('naming scope: ' + naming)
                    r = check_naming(inp)
                    if r is not None:
                        if st.failure is None:
                            st.failure = r
                        return


def run(ctx):
    ctx.rule = ('(A) metamorphic, in-process: Hypothesis (K <= 4 states, formula of the called logic, '
                'checker) and a transformation: a random state bijection composed with a naming '
                '(strings, reversed ints, tuples, mixed types, states whose printed forms collide), '
                'one of six S/R/L collection orders, list/set/tuple containers; a consistent atom '
                'renaming (incl. swapping p and q, names with spaces, reserved-looking names) given '
                'as object or text; an extra atom that does not occur in the formula, named harmlessly and named like '
                'the atoms the checkers generate ([E(X(p))], fair, ...), on random states; a disjoint extension by 1-2 states with edges among themselves '
                'and into K (never reachable from K).  Oracle: answer = image of the base answer '
                '(restricted to the old states for extensions).  (B) hash seeds: a deterministic '
                'corpus (string / mixed states, multi-character atoms, all three checkers) is '
                'evaluated by one fresh interpreter per PYTHONHASHSEED; all seeds must agree with '
                'each other and with R-STAR.  Non-trivial (A) = base answer a proper non-empty subset '
                'and a non-identity bijection; (B) cases count as non-trivial when the reference '
                'answer is a proper non-empty subset.')
    shards, n = ctx.pick((16, 100), (16, 800))
    f = core.run_sharded(ctx, random_shard, {'seed': ctx.seed, 'n': n}, nshards=shards)
    if f is not None:
        ctx.violation(f)
        return
    np_ = {'scopes': ctx.pick([(1, 1), (2, 1), (3, 53)], [(1, 1), (2, 1), (3, 5), (4, 20011)]), 'slow_stride': ctx.pick(3, 1)}
    f = core.run_sharded(ctx, naming_shard, np_)
    if f is not None:
        ctx.violation(f)
        return
    seeds = ctx.pick([0, 1, 2, 3, 7, 11, 101, 4242], list(range(16)) + [101, 4242, 65535, 123456789])
    corpus = make_corpus(ctx.seed * 1000 + 77, ctx.pick(300, 1200))
    ctx.scopes = ['%d transformation cases' % (shards * n),
                  'naming scope: structures %s x 12 formulas (CTL, CTL*, LTL) x each of the %d state namings (strings, tuples, mixed types, '
                  'colliding prints, identity objects, negative and positive small ints, equal numbers of different types, ...)'
                  % (', '.join('every %dth of S(%d)' % (s_, n_) if s_ > 1 else 'S(%d)' % n_ for n_, s_ in np_['scopes']), len(graphs.NAMINGS)),
                  '%d-case corpus x PYTHONHASHSEED in %s' % (len(corpus), seeds)]
    ctx.assumptions = ['the hash seeds are a finite sample', 'vp/ref.py R-STAR for part (B)']
    res = run_seeds(corpus, seeds)
    st = ctx.stats
    for i, case in enumerate(corpus):
        exp = reference(case)
        st.evaluations += len(seeds)
        full = (1 << case['K']['n']) - 1
        if exp[1] not in (0, full):
            st.nontrivial += 1
        st.bump('hash-seed corpus ' + case['checker'])
        vals = dict((s, res[s][i]) for s in seeds)
        if any(v != exp for v in vals.values()):
            inp = {'case': case, 'seeds': seeds}
            differ = len(set(json.dumps(v) for v in vals.values())) > 1
            f = Failure('hashseed', inp, exp, dict((str(k), v) for k, v in vals.items()),
                        'answers differ between PYTHONHASHSEED values' if differ
                        else 'all seeds agree with each other but not with the reference')
            ctx.violation(f)
            return
        if i % 40 == 0:
            st.sample(dict(case, expected=exp), cls='hash-%s' % case['checker'])
