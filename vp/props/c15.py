"""C15 - fairness restricts path quantifiers to fair paths.

Primary oracle (never relaxed): R-STAR with the sets of F as extra Buchi acceptance sets.
The pinned tree fails it broadly (DESIGN 5.2); those failures are KNOWN FINDINGS, attributed
one by one: a failing case is excused iff its observed outcome equals the prediction of the
frozen model of the pinned behaviour (vp/frozen.py) for the observed fair-state set.  Any
other failure is a VIOLATION.
"""
from .. import core, fm, km, mc, ref, frozen
from ..core import Failure
from .. import graphs

KF = {
    'KF-C15-1': 'get_fair_states',
    'KF-C15-2': 'CTL.modelcheck',
    'KF-C15-3': 'CTL.modelcheck',
    'KF-C15-4': 'LTL.modelcheck',
    'KF-C15-5': 'CTLS.modelcheck',
}


class Known(object):
    """A failure of the primary oracle that is attributed to a listed known finding."""

    def __init__(self, kid, detail):
        self.kid = kid
        self.detail = detail


def masks_of(K, F):
    return [ref.list_to_mask(sorted(set(s % K['n'] for s in P))) for P in F]


def norm_F(K, F):
    return [sorted(set(s % K['n'] for s in P)) for P in F]


def observe_fair(kripke, K, F, naming, fshape='list-set'):
    nm = graphs.NAMINGS[naming]
    back = dict((nm(i), i) for i in range(K['n']))
    arg = mc.make_F(F, nm, fshape)
    before = [set(P) for P in arg]
    res = kripke.get_fair_states(arg)
    if [set(P) for P in arg] != before:
        return ('bad', 'the caller\'s F was modified')
    return mc.normalise(res, back)


def with_extra_labels(inp):
    """K plus labels named like the fair label the checkers generate ('fair', 'fair0', ...):
    atoms the formula never mentions, which K may legitimately carry."""
    K = inp['K']
    ex = inp.get('extra_labels')
    if not ex:
        return K
    names = ['fair', 'fair0', 'fair', 'fair1', 'fair2', 'fair3', 'fair', 'fair4', 'fair5', 'fair6', 'fairness']
    labels = [list(l) for l in K['labels']]
    for (st_, k) in ex:
        nm_ = names[k % len(names)]
        if nm_ not in labels[st_ % K['n']]:
            labels[st_ % K['n']].append(nm_)
    return dict(K, labels=labels)


def check_fair_states(inp, kripke=None):
    """get_fair_states(F) = states from which some path visits every P infinitely often."""
    K = with_extra_labels(inp)
    F = norm_F(K, inp['F'])
    naming, how = inp.get('naming', 'int'), inp.get('how', 0)
    M = ref.Model(K)
    masks = masks_of(K, F)
    truth = ref.exists(M, ('set', M.full), masks)
    if kripke is None:
        kripke = km.to_lib(K, naming, how)
    before = km.snapshot(kripke)
    try:
        obs = observe_fair(kripke, K, F, naming, inp.get('fshape', 'list-set'))
    except Exception as e:
        return Failure('fair_states', inp, mc.show_mask(truth), 'raised %s: %s' % (type(e).__name__, e))
    d = km.snapshot_diff(before, km.snapshot(kripke))
    if d:
        return Failure('fair_states', inp, 'structure unchanged', d)
    if obs == ('set', truth):
        return None
    if obs[0] == 'set' and obs[1] in frozen.admissible_fair_sets(M, masks):
        return Known('KF-C15-1', 'get_fair_states(%s) = %s, expected %s' % (
            F, ref.mask_to_list(obs[1]), ref.mask_to_list(truth)))
    return Failure('fair_states', inp, mc.show_mask(truth), mc.show(obs),
                   'not the output of the pinned get_fair_states either')


def truths(M, top, masks):
    """The admissible answers: fair semantics under the two readings of the Boolean constants."""
    out = set()
    for as_atom in (False, True):
        fair = ref.Fair(M, masks, bool_as_atom=as_atom)
        out.add(ref.star_eval(M, top, fair))
    return out


def check_mc(inp, kripke=None):
    """modelcheck(K, f, F=F) interprets A/E over fair paths and atoms as 'p and fair'."""
    K = with_extra_labels(inp)
    checker = inp['checker']
    F = None if inp['F'] is None else norm_F(K, inp['F'])
    naming, how = inp.get('naming', 'int'), inp.get('how', 0)
    f = fm.from_json(inp['f'])
    top = ('A', f) if checker == 'LTL' else f
    M = ref.Model(K)
    if kripke is None:
        kripke = km.to_lib(K, naming, how)
    before = km.snapshot(kripke)
    fshape = inp.get('fshape', 'list-set')
    out = mc.call(checker, K, top, naming, how, form=inp.get('form', 'obj'), F=F, kripke=kripke, fshape=fshape)
    if F is not None and inp.get('again') and out[0] != 'bad':
        # the same structure object asked with another F in between must answer as before
        other = [sorted(set(range(K['n'])) - set(P)) for P in F] or [[0]]
        mc.call(checker, K, top, naming, how, form=inp.get('form', 'obj'), F=other, kripke=kripke)
        out3 = mc.call(checker, K, top, naming, how, form=inp.get('form', 'obj'), F=F, kripke=kripke, fshape=fshape)
        if out3[:2] != out[:2]:
            return Failure('mc', inp, mc.show(out), mc.show(out3),
                           'the same call on the same structure object answers differently after a call with F=%s' % other)
    d = km.snapshot_diff(before, km.snapshot(kripke))
    if d:
        return Failure('mc', inp, 'structure unchanged', d, 'after %s.modelcheck with F' % checker)
    if F is None:
        want = set([ref.star_eval(M, top)])
    else:
        want = truths(M, top, masks_of(K, F))
    if out[0] == 'set' and out[1] in want:
        return None
    exp = [ref.mask_to_list(w) for w in sorted(want)]
    if F is not None:
        # attribution to a known finding: exact equality with the frozen model
        try:
            obs_fair = observe_fair(kripke, K, F, naming)
        except Exception:
            obs_fair = None
        # The checkers label the fair states on a CLONE of K, whose set/dict iteration order (and
        # with it the SCC representative the pinned get_fair_states depends on) need not be the
        # order of the caller's object.  The fair-state set used inside the call is therefore one
        # of: what the caller's object reports, any output the pinned get_fair_states can produce
        # under some iteration order, or (after a repair of KF-C15-1 alone) the correct set.
        masks = masks_of(K, F)
        cands = set(frozen.admissible_fair_sets(M, masks))
        cands.add(ref.exists(M, ('set', M.full), masks))
        if obs_fair is not None and obs_fair[0] == 'set':
            cands.add(obs_fair[1])
        got = out[:2] if out[0] == 'exc' else out
        preds = [getattr(frozen, checker.lower())(M, top, fs) for fs in sorted(cands)]
        if True:
            if got in preds:
                if checker == 'CTL':
                    kid = 'KF-C15-3' if out[0] == 'exc' else 'KF-C15-2'
                elif checker == 'LTL':
                    kid = 'KF-C15-4'
                else:
                    kid = 'KF-C15-5'
                return Known(kid, '%s.modelcheck(.., %s, F=%s) -> %s, expected %s' % (
                    checker, fm.to_text(top), F, mc.show(out), exp))
    return Failure('mc', inp, {'any_of': exp}, mc.show(out),
                   '%s.modelcheck with F=%s; not the pinned (known) behaviour either' % (checker, F))


def check_history(inp):
    """One Kripke OBJECT asked several times, the caller adding transitions (add_edge between its
    states) in between: every answer is judged, by the two checks above, against the structure as it
    is at that moment.  steps: ['ask', F] | ['edge', a, b] | ['mc', checker, f, F]."""
    K = dict(inp['K'])
    naming, how = inp.get('naming', 'int'), inp.get('how', 0)
    nm = graphs.NAMINGS[naming]
    kripke = km.to_lib(K, naming, how)
    known = None
    for k, step in enumerate(inp['steps']):
        if step[0] == 'edge':
            a, b = step[1] % K['n'], step[2] % K['n']
            if [a, b] in K['edges']:
                continue
            try:
                kripke.add_edge(nm(a), nm(b))
            except Exception as e:
                return Failure('history', inp, 'add_edge(%r, %r) succeeds' % (nm(a), nm(b)),
                               'raised %s: %s' % (type(e).__name__, e))
            K = dict(K, edges=sorted(K['edges'] + [[a, b]]))
            continue
        if step[0] == 'ask':
            sub = {'K': K, 'F': step[1], 'naming': naming, 'how': how}
            r = check_fair_states(sub, kripke)
        else:
            sub = {'K': K, 'checker': step[1], 'f': step[2], 'F': step[3], 'naming': naming, 'how': how}
            r = check_mc(sub, kripke)
        if isinstance(r, Failure):
            return Failure('history', inp, r.expected, r.actual, 'step %d %r on the structure %r: %s' % (
                k, step, K['edges'], r.note))
        if isinstance(r, Known) and known is None:
            known = r
    return known


CHECKS = {'fair_states': check_fair_states, 'mc': check_mc, 'history': check_history}


def replay(ctx, rec):
    r = CHECKS[rec['check']](rec['input'])
    if isinstance(r, Known):
        ctx.known_finding('%s %s: %s' % (r.kid, KF[r.kid], r.detail))
        return None
    return r


def all_paths_fair(M, masks):
    """Every infinite path of K is fair: no path avoids some P forever."""
    for P in masks:
        # a path that eventually stays outside P exists iff EG (not P) holds somewhere reachable
        if ref._gfp(lambda Z: (M.full & ~P) & M.pre_e(Z), M.full):
            return False
    return True


def classify(M, masks):
    fair = ref.exists(M, ('set', M.full), masks)
    if all_paths_fair(M, masks):
        return 'every path fair'
    if fair == 0:
        return 'no fair path'
    if fair == M.full:
        return 'fair and unfair paths, every state fair'
    return 'fair and unfair states'


def F_lists(n, max_sets):
    """All lists of <= max_sets subsets of 0..n-1 (as sorted lists), order irrelevant."""
    subsets = [list(c) for c in graphs.all_subsets(range(n))]
    out = [[]]
    if max_sets >= 1:
        out += [[s] for s in subsets]
    if max_sets >= 2:
        out += [[a, b] for i, a in enumerate(subsets) for b in subsets[i + 1:]]
    return out


def handle(st, r, inp, check):
    """Book-keeping for one evaluated case; returns a Failure to report or None."""
    if r is None:
        st.bump('agrees with the reference')
        return None
    if isinstance(r, Known):
        st.known(r.kid)
        return None
    return r


def enum_shard(st, shard, nshards, payload):
    idx = -1
    forms = {'CTL': fm.ctl_formulas(payload['k_ctl'])[::payload['f_stride']],
             'LTL': fm.ltl_paths(1)[::payload['f_stride'] * 2],
             'CTLS': [(q, g) for q in 'AE' for g in fm.ltl_paths(1)][::payload['f_stride']] +
                     [('and', ('A', ('F', fm.P)), fm.TRUE), ('not', ('E', ('G', ('X', fm.P)))),
                      ('A', ('G', ('E', ('F', fm.P)))), ('E', ('F', ('A', ('G', fm.P)))),
                      ('A', ('U', fm.TRUE, ('E', ('X', fm.Q))))]}
    for n in payload['ns']:
        Fs = F_lists(n, 2)
        for K in km.scope(n):
            idx += 1
            if idx % nshards != shard:
                continue
            if n >= 2 and payload['k_stride'] > 1 and (idx // nshards) % payload['k_stride']:
                continue
            M = ref.Model(K)
            naming = ('int', 'str', 'tuple')[idx % 3]
            for Fi, F in enumerate(Fs):
                masks = masks_of(K, F)
                cls = classify(M, masks)
                inp = {'K': K, 'F': F, 'naming': naming, 'how': idx % 6,
                       'fshape': ('list-set', 'list-frozenset', 'list-set-many-out', 'tuple-set', 'list-set-out', 'set-frozenset', 'frozenset-frozenset')[(Fi + idx) % 7]}
                st.evaluations += 1
                st.bump('F class: ' + cls)
                if cls == 'fair and unfair states' or cls.startswith('fair and unfair paths'):
                    st.nontrivial += 1
                f = handle(st, check_fair_states(inp), inp, 'fair_states')
                if f is not None:
                    if st.failure is None:
                        st.failure = f
                    return
            for fi, F in enumerate(Fs[::payload['F_stride']] + [None]):
                for checker in ('CTL', 'LTL', 'CTLS'):
                    fl = forms[checker]
                    for gi, g in enumerate(fl):
                        if (gi + fi + idx) % payload['mc_stride']:
                            continue
                        inp = {'K': K, 'F': F, 'f': g, 'checker': checker, 'naming': naming, 'how': idx % 6,
                               'fshape': ('list-set', 'list-set-many-out', 'tuple-frozenset', 'set-frozenset', 'frozenset-frozenset')[(gi + fi) % 5]}
                        st.evaluations += 1
                        if F is not None and fm.temporal_count(g) and \
                                classify(M, masks_of(K, F)).startswith('fair and unfair'):
                            st.nontrivial += 1
                            if (gi + idx) % 23 == 0:
                                st.sample(inp, cls='%s-n%d' % (checker, n))
                        st.bump('%s with F' % checker if F is not None else '%s F=None' % checker)
                        f = handle(st, check_mc(inp), inp, 'mc')
                        if f is not None:
                            if st.failure is None:
                                st.failure = f
                            return


def random_shard(st, shard, nshards, payload):
    from hypothesis import strategies as hs

    @hs.composite
    def cases(draw):
        kind = draw(hs.sampled_from(['fair', 'CTL', 'CTL', 'LTL', 'CTLS', 'CTLS']))
        K = draw(km.st_kripke(1, 6 if kind in ('fair', 'CTL') else 4))
        n = K['n']
        Fk = draw(hs.sampled_from(['list', 'list', 'split', 'split', 'split', 'empty', 'all', 'none']))
        cands = []
        if Fk == 'split':
            # populate the class the property is about by construction: an F for which K has
            # both states with and states without a fair path (chosen with the reference)
            M = ref.Model(K)
            cands = [F_ for F_ in F_lists(n, 2) if classify(M, masks_of(K, F_)) == 'fair and unfair states']
        if cands:
            F = cands[draw(hs.integers(0, len(cands) - 1))]
        elif Fk == 'empty':
            F = []
        elif Fk == 'all':
            F = [list(range(n))]
        elif Fk == 'none':
            F = None
        else:
            F = draw(hs.lists(hs.lists(hs.integers(0, n - 1), max_size=n, unique=True), min_size=1, max_size=4))
        base = {'K': K, 'F': F, 'naming': draw(hs.sampled_from(['int', 'str', 'tuple', 'mixed'])),
                'how': draw(hs.integers(0, 5)),
                'fshape': draw(hs.sampled_from(['list-set', 'list-set', 'list-frozenset', 'tuple-set', 'tuple-frozenset', 'list-set-out',
                                                'set-frozenset', 'frozenset-frozenset', 'dict-values', 'list-set-dup', 'list-set-many-out', 'list-set-many-out'])),
                'again': draw(hs.integers(0, 3)) == 0,
                'extra_labels': draw(hs.lists(hs.tuples(hs.integers(0, 5), hs.integers(0, 10)).map(list), min_size=1, max_size=4))
                if draw(hs.integers(0, 2)) == 0 else None}
        if kind == 'fair':
            if F is None:
                base['F'] = []
            base['kind'] = 'fair'
            return base
        base['kind'] = 'mc'
        base['checker'] = kind
        base['form'] = draw(hs.sampled_from(['obj', 'obj', 'text']))
        base['f'] = draw({'CTL': fm.st_formula('ctl', max_depth=3),
                          'LTL': fm.st_formula('ltl_path', max_depth=3, max_temporal=2),
                          'CTLS': fm.st_formula('ctls_state', max_depth=3, max_temporal=2)}[kind])
        return base

    def body(inp):
        inp = dict(inp)
        kind = inp.pop('kind')
        M = ref.Model(inp['K'])
        cls = classify(M, masks_of(inp['K'], inp['F'])) if inp['F'] is not None else 'F=None'
        if inp.get('extra_labels'):
            st.bump('random: K already carries a label named fair/fair0/...')
        if inp['F'] and len(inp['F']) >= 3:
            st.bump('random: F with >= 3 sets')
        nt = cls.startswith('fair and unfair') and (kind == 'fair' or fm.temporal_count(fm.from_json(inp['f'])) > 0)
        st.random_case(inp, nt)
        st.bump('random %s, %s' % (inp.get('checker', 'get_fair_states'), cls))
        if nt:
            st.sample(inp, cls='random-%s-%s' % (inp.get('checker', 'fair'), cls[:12]))
        r = check_fair_states(inp) if kind == 'fair' else check_mc(inp)
        return handle(st, r, inp, kind)

    f = core.hyp_run(payload['seed'] * 1000 + shard, cases(), body, payload['n'])
    if f is not None:
        st.failure = f


def history_shard(st, shard, nshards, payload):
    """Systematic: K in scope; ask F, add one transition, ask again (and once more through a checker)."""
    idx = -1
    for n in payload['ns']:
        Fs = F_lists(n, 2)
        for K in km.scope(n):
            idx += 1
            if idx % nshards != shard:
                continue
            if (idx // nshards) % payload['k_stride']:
                continue
            missing = [[a, b] for a in range(n) for b in range(n) if [a, b] not in K['edges']]
            for ei, e in enumerate(missing):
                for fi, F in enumerate(Fs):
                    if (fi + ei + idx) % payload['F_stride']:
                        continue
                    F2 = Fs[(fi * 7 + ei) % len(Fs)]
                    steps = [['ask', F], ['edge', e[0], e[1]], ['ask', F], ['ask', F2]]
                    if (fi + idx) % 3 == 0:
                        steps.append(['mc', ('CTL', 'LTL', 'CTLS')[(fi + ei) % 3],
                                      [('E', ('G', fm.P)), ('G', ('F', fm.P)), ('E', ('G', ('F', fm.Q)))][(fi + ei) % 3], F])
                    inp = {'K': K, 'naming': ('int', 'str', 'tuple')[idx % 3], 'how': idx % 6, 'steps': steps}
                    st.evaluations += 1
                    M2 = ref.Model(dict(K, edges=sorted(K['edges'] + [e])))
                    M1 = ref.Model(K)
                    m1, m2 = masks_of(K, F), masks_of(K, F)
                    grew = ref.exists(M1, ('set', M1.full), m1) != ref.exists(M2, ('set', M2.full), m2)
                    st.bump('history: the new transition %s the fair states' % ('changes' if grew else 'keeps'))
                    if grew:
                        st.nontrivial += 1
                        if (fi + idx) % 41 == 0:
                            st.sample(inp, cls='history-n%d' % n)
                    f = handle(st, check_history(inp), inp, 'history')
                    if f is not None:
                        if st.failure is None:
                            st.failure = f
                        return


def history_random_shard(st, shard, nshards, payload):
    from hypothesis import strategies as hs

    @hs.composite
    def cases(draw):
        K = draw(km.st_kripke(2, 6))
        n = K['n']
        Fst = hs.lists(hs.lists(hs.integers(0, n - 1), max_size=n, unique=True), min_size=0, max_size=3)
        steps = []
        for _ in range(draw(hs.integers(2, 8))):
            kind = draw(hs.sampled_from(['ask', 'ask', 'edge', 'edge', 'mc']))
            if kind == 'ask':
                steps.append(['ask', draw(Fst)])
            elif kind == 'edge':
                steps.append(['edge', draw(hs.integers(0, n - 1)), draw(hs.integers(0, n - 1))])
            else:
                c = draw(hs.sampled_from(['CTL', 'LTL', 'CTLS']))
                f = draw({'CTL': fm.st_formula('ctl', max_depth=2),
                          'LTL': fm.st_formula('ltl_path', max_depth=2, max_temporal=2),
                          'CTLS': fm.st_formula('ctls_state', max_depth=2, max_temporal=2)}[c])
                steps.append(['mc', c, f, draw(Fst)])
        steps.append(['ask', draw(Fst)])
        return {'K': K, 'naming': draw(hs.sampled_from(['int', 'str', 'tuple', 'mixed'])),
                'how': draw(hs.integers(0, 5)), 'steps': steps}

    def body(inp):
        asks = [i for i, s_ in enumerate(inp['steps']) if s_[0] != 'edge']
        edges = [i for i, s_ in enumerate(inp['steps']) if s_[0] == 'edge']
        nt = bool(edges) and bool(asks) and asks[0] < edges[-1] < asks[-1]
        st.random_case(inp, nt)
        st.bump('random history: %s' % ('asked before and after an edit' if nt else 'no edit between questions'))
        if nt:
            st.sample(inp, cls='random-history')
        return handle(st, check_history(inp), inp, 'history')

    f = core.hyp_run(payload['seed'] * 1000 + 700 + shard, cases(), body, payload['n'])
    if f is not None:
        st.failure = f


def run(ctx):
    ctx.rule = ('K in S(1)+S(2) (strided in the quick tier), random <= 4 states under four state '
                'namings (random tier: <= 6 states for CTL and get_fair_states, F of up to 4 sets given as list/tuple of '
                'set/frozenset and checked to be left unmodified, K optionally carrying labels named fair/fair0/.., the '
                'same structure object re-asked after a call with another F; HISTORIES: one structure object asked by get_fair_states / the checkers '
                'before and after the caller adds transitions with add_edge); F = every list of <= 2 subsets of the states (incl. [], [S], [{}]) for '
                'get_fair_states, a stride of them plus F=None for the checkers; formulas: CTL with '
                '<= 1 operator, LTL A g and CTL* Q g with g <= 1 operator plus nested-quantifier '
                'formulas; random formulas depth <= 3.  PRIMARY ORACLE: R-STAR with one extra Buchi '
                'set per P in F: get_fair_states = states with a fair path; modelcheck(F) = fair '
                'semantics (A/E over fair paths, atom p = p and a fair path starts here; Boolean '
                'constants read either as constants or as atoms: both answers accepted); F=None '
                'and every-path-fair F therefore equal the unconstrained answer; no exception; K '
                'snapshot unchanged.  A case that fails the primary oracle is counted under '
                'excluded_known ONLY if its outcome equals the frozen model of the pinned behaviour '
                '(vp/frozen.py) exactly; anything else is a violation.  Non-trivial = K has both '
                'fair and unfair paths w.r.t. F and (for modelcheck) the formula has a temporal operator.')
    ctx.assumptions = ['vp/ref.py fair semantics (CGP) is the trusted base',
                       'known findings KF-C15-1..5 (known_findings.txt) are attributed by exact '
                       'equality with vp/frozen.py; the frozen model is never used as an oracle']
    # the listed known findings: replay each witness; print the line only if it still fails
    listed = core.load_known('C15')
    for k in listed:
        w = k['witness']
        r = CHECKS[w['check']](w['input'])
        ctx.stats.evaluations += 1
        if isinstance(r, Known):
            if r.kid != k['id']:
                ctx.violation(Failure(w['check'], w['input'], 'known finding %s' % k['id'],
                                      'attributed to %s: %s' % (r.kid, r.detail)))
                return
            ctx.known_finding('%s %s: %s' % (k['id'], k['site'], k['what']))
        elif isinstance(r, Failure):
            ctx.violation(r)
            return
        else:
            ctx.notes.setdefault('known_findings_no_longer_failing', []).append(k['id'])
    listed_ids = set(k['id'] for k in listed)

    if ctx.thorough:
        payload = {'ns': [1, 2], 'k_stride': 1, 'k_ctl': 1, 'f_stride': 1, 'F_stride': 1, 'mc_stride': 3}
        payload3 = {'ns': [3], 'k_stride': 23, 'k_ctl': 1, 'f_stride': 2, 'F_stride': 3, 'mc_stride': 5}
        ctx.scopes = ['S(1)+S(2) x all F lists of <= 2 sets (get_fair_states); x every 3rd (formula, F) pair for the checkers',
                      'every 23rd of S(3) x all 37 F lists (get_fair_states) and strided (formula, F) pairs']
    else:
        payload = {'ns': [1, 2], 'k_stride': 3, 'k_ctl': 1, 'f_stride': 3, 'F_stride': 2, 'mc_stride': 4}
        payload3 = {'ns': [3], 'k_stride': 211, 'k_ctl': 1, 'f_stride': 4, 'F_stride': 5, 'mc_stride': 7}
        ctx.scopes = ['S(1) + every 3rd of S(2) x all F lists (get_fair_states); strided (formula, F) pairs for the checkers',
                      'every 211th of S(3) likewise']
    ctx.exhaustive = True
    f = core.run_sharded(ctx, enum_shard, payload)
    if f is None:
        f = core.run_sharded(ctx, enum_shard, payload3)
    if f is None:
        shards, n = ctx.pick((16, 60), (16, 900))
        f = core.run_sharded(ctx, random_shard, {'seed': ctx.seed, 'n': n}, nshards=shards)
    if f is None:
        # histories: the same Kripke object asked again after the caller added a transition
        hp = {'ns': [1, 2, 3], 'k_stride': 1 if ctx.thorough else 5, 'F_stride': 1 if ctx.thorough else 3}
        if ctx.thorough:
            hp3 = dict(hp, ns=[3], k_stride=47, F_stride=3)
        ctx.scopes.append('histories: K in S(1)+S(2)%s, every missing transition added between two get_fair_states calls (+ a checker call)'
                          % (' (every 5th K, every 3rd F)' if not ctx.thorough else ''))
        hp['ns'] = [1, 2]
        f = core.run_sharded(ctx, history_shard, hp)
        if f is None and ctx.thorough:
            f = core.run_sharded(ctx, history_shard, hp3)
        if f is None:
            shards, n = ctx.pick((16, 40), (16, 600))
            f = core.run_sharded(ctx, history_random_shard, {'seed': ctx.seed, 'n': n}, nshards=shards)
    if f is not None:
        ctx.violation(f)
        return
    unlisted = set(ctx.stats.excluded_known) - listed_ids
    if unlisted:
        # cannot happen unless known_findings.txt lost an entry: never excuse silently
        ctx.violation(Failure('mc', {'unlisted': sorted(unlisted)}, 'every excused case is listed in known_findings.txt',
                              'cases attributed to %s' % sorted(unlisted)))
