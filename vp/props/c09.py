"""C09 - printing then parsing a formula gives back the same formula."""
import itertools

from .. import core, fm
from ..core import Failure

LOGICS = ['PL', 'LTL', 'CTLS', 'CTL']
POOL = ['p', 'q', 'Ap', 'Xx', 'U1', 'trueish', 'nota', 'or_', 'andy', 'EF', 'AG', '_', 'True',
        'Gp', 'pU', 'Uq', 'R2', 'falsey', 'notp', 'EX', 'AX', 'Fp', 'x_1', 'A_', 'notnot',
        'truefalse', 'oror', 'UR', 'a9', 'E', 'A', 'X', 'F', 'G', 'U', 'R', '_A', '_not', 'A1', 'X0', 'G_',
        'notA', 'andor', 'a' * 70, 'EXp', 'AGEF', 'Uu', 'p_or_q', 'xAx', 'false0', 'true_']

_parsers = {}


def parser(logic):
    if logic not in _parsers:
        _parsers[logic] = fm.lang(logic).Parser()
    return _parsers[logic]


def reserved(logic):
    """Reserved words of a logic = the symbols of its alphabet (read from the library)."""
    return set(fm.lang(logic).symbols)


def atoms_for(logic):
    r = reserved(logic)
    return [a for a in POOL if a not in r]


def domain_ok(logic, t):
    return fm.kind(logic, t) is not None


def printed(logic, obj):
    if logic == 'CTL':
        return str(obj.cast_to(fm.lang('CTLS')))
    return str(obj)


def check_roundtrip(inp):
    logic = inp['logic']
    t = fm.from_json(inp['f'])
    L = fm.lang(logic)
    try:
        obj = fm.to_lib(t, L, raw_leaves=inp.get('raw', False))
    except Exception as e:
        raise core.HarnessError('cannot build %r in %s: %s' % (t, logic, e))
    try:
        text = printed(logic, obj)
    except Exception as e:
        return Failure('roundtrip', inp, 'a printed form', 'str raised %s: %s' % (type(e).__name__, e))
    if inp.get('prime') or (fm.size(t) * 3 + len(text)) % 7 == 0:
        # what the session parsed BEFORE must not matter: first some hand-written texts whose QUOTED atoms are
        # spelled like printed subformulas of this very formula (legal atoms; tables keyed by printed forms
        # cannot tell them from the subformulas)
        for sub in [x for x in fm.subformulas(t) if x[0] not in fm.LEAF][:3]:
            try:
                st_ = printed(logic, fm.to_lib(sub, L)) if fm.kind(logic, sub) else None
            except Exception:
                st_ = None
            if not st_ or '"' in st_:
                continue
            for primer in ('"%s"' % st_, '("%s" or "%s")' % (st_, st_[1:-1] if st_.startswith('(') else st_)):
                try:
                    parser(logic)(primer)
                except Exception:
                    pass                      # a primer the grammar refuses primes nothing
    try:
        fresh = inp.get('fresh_parser', False)
        g = (L.Parser() if fresh else parser(logic))(text)
    except Exception as e:
        return Failure('roundtrip', inp, 'parses back', 'Parser raised %s on %r' % (type(e).__name__, text))
    try:
        back = fm.structure(g)
    except Exception as e:
        return Failure('roundtrip', inp, 'a formula', 'parser returned %r (%s)' % (g, e))
    if back != t:
        return Failure('roundtrip', inp, list(t), list(back), 'printed form %r parses to another tree' % text)
    bad = fm.foreign_node(g, logic)
    if bad:
        return Failure('roundtrip', inp, 'a formula object of logic %s' % logic, bad, text)
    return None


# ---------------------------------------------------------------------------------------
# deeply nested formulas (built by program: "grant within 120 steps", a conjunction folded over 300
# atoms).  Everything on the harness side is iterative; the interpreter's recursion limit is left alone.

def deep_formula(logic, shape, k, leaf=None):
    """Harness tuple of nesting k, built inside-out from the innermost leaf (default p)."""
    P_, Q_ = (leaf or fm.P), fm.Q
    nxt = {'PL': lambda f: ('not', f), 'LTL': lambda f: ('X', f), 'CTLS': lambda f: ('X', f),
           'CTL': lambda f: ('A', ('X', f))}[logic]
    nxt2 = {'PL': lambda f: ('not', f), 'LTL': lambda f: ('G', f), 'CTLS': lambda f: ('E', ('F', f)),
            'CTL': lambda f: ('E', ('G', f))}[logic]
    unt = {'PL': lambda a, b: ('imp', a, b), 'LTL': lambda a, b: ('U', a, b), 'CTLS': lambda a, b: ('R', a, b),
           'CTL': lambda a, b: ('E', ('U', a, b))}[logic]
    f = P_
    for i in range(0 if shape.startswith('wide-') else k):
        if shape == 'next-chain':
            f = nxt(f)
        elif shape == 'not-chain':
            f = ('not', f)
        elif shape == 'mixed-chain':
            f = nxt(f) if i % 3 == 0 else (nxt2(f) if i % 3 == 1 else ('not', f))
        elif shape == 'bounded-response':
            f = ('or', Q_, nxt(f))
        elif shape == 'left-fold-and':
            f = ('and', f, ('ap', 'a%d' % i))
        elif shape == 'right-fold-or':
            f = ('or', ('ap', 'a%d' % i), f)
        elif shape == 'until-right':
            f = unt(Q_, f)
        elif shape == 'until-left':
            f = unt(f, Q_)
        elif shape == 'imply-right':
            f = ('imp', ('ap', 'g%d' % i), f)
        else:
            raise core.HarnessError('unknown shape %r' % (shape,))
    if shape == 'wide-and':
        f = ('and',) + tuple(('ap', 'a%d' % i) for i in range(max(k, 2)))
    if shape == 'wide-or-of-next':
        f = ('or',) + tuple(nxt(('ap', 'a%d' % i)) for i in range(max(k, 2)))
    return f


def to_lib_iter(t, L):
    """fm.to_lib without recursion (explicit stack, post-order)."""
    out = []
    stack = [(t, False)]
    while stack:
        node, done = stack.pop()
        if node[0] in fm.LEAF:
            out.append(fm.to_lib(node, L))
        elif not done:
            stack.append((node, True))
            for c in reversed(node[1:]):
                stack.append((c, False))
        else:
            n = len(node) - 1
            kids = out[len(out) - n:]
            del out[len(out) - n:]
            out.append(getattr(L, fm.CLASSNAME[node[0]])(*kids))
    return out[0]


def flatten_tuple(t):
    toks = []
    stack = [t]
    while stack:
        node = stack.pop()
        if node[0] in fm.LEAF:
            toks.append(node)
        else:
            toks.append((node[0], len(node) - 1))
            stack.extend(reversed(node[1:]))
    return toks


def flatten_obj(obj):
    toks = []
    stack = [obj]
    while stack:
        node = stack.pop()
        name = type(node).__name__
        if name == 'Bool':
            toks.append(fm.TRUE if node._value else fm.FALSE)
        elif name == 'AtomicProposition':
            toks.append(('ap', node.name))
        else:
            kids = list(node.subformulas())
            toks.append((fm.KINDNAME.get(name, name), len(kids)))
            stack.extend(reversed(kids))
    return toks


def _burn(n, fn):
    return fn() if n == 0 else _burn(n - 1, fn)


HEADROOM = 60


def check_deep(inp):
    """A formula of nesting k that the library can print (with HEADROOM interpreter frames to spare, so
    that nothing hinges on a frame or two) must parse back to itself."""
    logic, shape, k = inp['logic'], inp['shape'], inp['k']
    L = fm.lang(logic)
    t = deep_formula(logic, shape, k)
    try:
        obj = _burn(HEADROOM, lambda: to_lib_iter(t, L))
        text = _burn(HEADROOM, lambda: printed(logic, obj))
    except RecursionError:
        return 'unprintable'
    except Exception as e:
        return Failure('deep', inp, 'a printed form', 'raised %s: %s' % (type(e).__name__, str(e)[:200]))
    try:
        g = (L.Parser() if inp.get('fresh_parser') else parser(logic))(text)
    except Exception as e:
        return Failure('deep', inp, 'parses back', 'Parser raised %s: %s on the printed form (%d characters: %s...)' % (
            type(e).__name__, str(e)[:120], len(text), text[:60]))
    a, b = flatten_tuple(t), flatten_obj(g)
    if a != b:
        i = next((j for j in range(min(len(a), len(b))) if a[j] != b[j]), min(len(a), len(b)))
        return Failure('deep', inp, 'the same tree', 'pre-order token %d is %r, expected %r (lengths %d / %d)' % (
            i, b[i] if i < len(b) else None, a[i] if i < len(a) else None, len(b), len(a)))
    return None


SHAPES = ['next-chain', 'not-chain', 'mixed-chain', 'bounded-response', 'left-fold-and', 'right-fold-or',
          'until-right', 'until-left', 'imply-right', 'wide-and', 'wide-or-of-next']


def deep_cases(ks):
    return [{'logic': lg, 'shape': sh, 'k': k, 'fresh_parser': (k % 2 == 1)} for lg in LOGICS for sh in SHAPES for k in ks]


def nesting_shard(st, shard, nshards, payload):
    for i, inp in enumerate(deep_cases(payload['ks'])):
        if i % nshards != shard:
            continue
        r = check_deep(inp)
        if r == 'unprintable':
            st.bump('nesting: not printable within the recursion limit (skipped)')
            continue
        st.evaluations += 1
        st.nontrivial += 1
        st.bump('nesting %s k>=%d' % (inp['logic'], 100 * (inp['k'] // 100)))
        if inp['k'] in (99, 250):
            st.sample(inp, cls='nesting-%s' % inp['shape'])
        if r is not None:
            if st.failure is None:
                st.failure = r
            return


CHECKS = {'roundtrip': check_roundtrip, 'deep': check_deep}


def replay(ctx, rec):
    if rec['check'] == 'injective':
        return check_injective_pair(rec['input'])
    if rec['check'] == 'deep':
        r = check_deep(rec['input'])
        return None if r == 'unprintable' else r
    return check_roundtrip(rec['input'])


def check_injective_pair(inp):
    """Two different trees must not print identically (replay of an injectivity failure)."""
    logic = inp['logic']
    L = fm.lang(logic)
    a, b = fm.from_json(inp['f1']), fm.from_json(inp['f2'])
    for how in ('native', 'ctls'):
        if how == 'ctls' and logic != 'CTL':
            continue
        sa = str(fm.to_lib(a, L)) if how == 'native' else printed(logic, fm.to_lib(a, L))
        sb = str(fm.to_lib(b, L)) if how == 'native' else printed(logic, fm.to_lib(b, L))
        if a != b and sa == sb:
            return Failure('injective', inp, 'different printed forms', 'both print as %r' % sa)
    return None


def is_nontrivial(t):
    """depth >= 2 with a binary/n-ary operator under a unary one, or a keyword-hugging atom."""
    if fm.depth(t) >= 2:
        for s in fm.subformulas(t):
            if len(s) == 2 and s[0] not in fm.LEAF and len(s[1]) > 2:
                return True
    return any(a not in ('p', 'q') for a in fm.atoms(t))


def scope_formulas(logic, k, atoms):
    """Every formula of the logic with <= k operators (binary and/or) over the atoms + consts,
    state and path kinds."""
    leaves = tuple(('ap', a) for a in atoms) + (fm.TRUE, fm.FALSE)
    if logic == 'PL':
        return fm.enum_upto(fm.PL_UN, fm.PL_BIN, leaves, k)
    if logic == 'CTL':
        st = fm.enum_upto(fm.CTL_UN, fm.CTL_BIN, leaves, k)
        paths = []
        sub = fm.enum_upto(fm.CTL_UN, fm.CTL_BIN, leaves, max(k - 1, 0))
        for o in ('X', 'F', 'G'):
            paths += [(o, f) for f in sub]
        small = fm.enum_upto(fm.CTL_UN, fm.CTL_BIN, leaves, 0)
        for o in ('U', 'R'):
            paths += [(o, f, g) for f in sub[:60] for g in small]
        return st + paths
    if logic == 'LTL':
        paths = fm.enum_upto(fm.LTL_UN, fm.LTL_BIN, leaves, k)
        return paths + [('A', g) for g in paths]
    if logic == 'CTLS':
        un = fm.LTL_UN + [('A', lambda f: ('A', f)), ('E', lambda f: ('E', f))]
        return fm.enum_upto(un, fm.LTL_BIN, leaves, k)
    raise ValueError(logic)


def enum_shard(st, shard, nshards, payload):
    idx = -1
    for logic in LOGICS:
        L = fm.lang(logic)
        seen = {}
        seen_native = {}
        for atoms in payload['atomsets'][logic]:
            for t in scope_formulas(logic, payload['k'], atoms):
                idx += 1
                # injectivity needs the whole scope in one process: shard by logic+atomset
                if hash_shard(logic, atoms) % nshards != shard:
                    continue
                inp = {'logic': logic, 'f': t}
                st.evaluations += 1
                nt = is_nontrivial(t)
                if nt:
                    st.nontrivial += 1
                st.bump('logic ' + logic)
                if nt and idx % 997 == 0:
                    st.sample(inp, cls='%s-%d' % (logic, fm.depth(t)))
                f = check_roundtrip(inp)
                if f is None:
                    obj = fm.to_lib(t, L)
                    for table, text in ((seen, printed(logic, obj)), (seen_native, str(obj))):
                        other = table.setdefault(text, t)
                        if other != t:
                            f = Failure('injective', {'logic': logic, 'f1': other, 'f2': t},
                                        'different printed forms', 'both print as %r' % text)
                            break
                    st.add_extra('printed_forms_compared', 2)
                if f is not None:
                    if st.failure is None:
                        st.failure = f
                    return


def deep_formulas(stride):
    """Beyond the exhaustive scope: every stride-th formula with exactly 3 operators of each logic over
    {p,q}, and the context families (a one-operator subformula repeated at least twice inside a
    context of <= 2 operators), for printers that look further than parent and child or remember
    printed forms."""
    un_s = fm.LTL_UN + [('A', lambda f: ('A', f)), ('E', lambda f: ('E', f))]
    out = []
    for logic, un, bn in (('PL', fm.PL_UN, fm.PL_BIN), ('CTL', fm.CTL_UN, fm.CTL_BIN), ('LTL', fm.LTL_UN, fm.LTL_BIN),
                          ('CTLS', un_s, fm.LTL_BIN)):
        for k in (3, 4):
            total = fm.count_exact(un, bn, (fm.P, fm.Q), k)
            step = max(1, stride * (1 if k == 3 else 401))
            if logic == 'PL':
                step = max(1, step // 16)
            out += [(logic, t) for t in fm.enum_strided(un, bn, (fm.P, fm.Q), k, step)]
    out += [('CTL', t) for t in fm.ctl_context(stride)]
    ltlc = fm.ltl_context()[::stride]
    out += [('LTL', t) for t in ltlc] + [('LTL', ('A', t)) for t in ltlc[::3]] + [('CTLS', t) for t in ltlc[1::2]]
    out += [('CTLS', t) for t in fm.ctls_context_q()[::stride]]
    return out


def deep_shard(st, shard, nshards, payload):
    for i, (logic, t) in enumerate(deep_formulas(payload['stride'])):
        if i % nshards != shard:
            continue
        if not domain_ok(logic, t):
            continue
        inp = {'logic': logic, 'f': t}
        st.evaluations += 1
        st.nontrivial += 1
        st.bump('deep ' + logic)
        if i % 4001 == 0:
            st.sample(inp, cls='deep-' + logic)
        f = check_roundtrip(inp)
        if f is not None:
            if st.failure is None:
                st.failure = f
            return


def hash_shard(logic, atoms):
    return sum(ord(c) for c in logic + ''.join(atoms))


def run(ctx):
    from hypothesis import strategies as hs
    ctx.rule = ('formulas of PL, LTL (path formulas and A g), CTL* and CTL (state and path '
                'formulas; CTL printed through cast_to(CTLS)) over atoms from a pool of identifiers '
                'that hug every keyword (Ap, Xx, U1, trueish, nota, andy, EF, ...) minus the '
                'reserved words of the logic (read from Lang.symbols), n-ary and/or of arity 2-6 '
                'in the random tier.  Oracle: structure(Parser()(str(f))) == tree of f compared by '
                'the harness, every node of the parsed formula in the logic\'s module; injectivity: '
                'over each enumerated scope printed forms (CTL* notation and native CTL notation) '
                'are grouped and every group must hold one tree.  Non-trivial = depth >= 2 with a '
                'binary/n-ary operator directly under a unary one, or an atom other than p/q.  NESTING: chains, folds and '
                'wide and/or nodes of nesting/width up to several hundred, built by program; whatever the library prints '
                '(with 60 interpreter frames to spare) must parse back to the same tree (compared iteratively).')
    k = ctx.pick(2, 2)
    atomsets = {}
    for logic in LOGICS:
        av = atoms_for(logic)
        sets = [('p', 'q')]
        # adversarial pairs; more of them in the thorough tier
        step = ctx.pick(6, 2)
        for i in range(0, len(av) - 1, step):
            sets.append((av[i], av[i + 1]))
        atomsets[logic] = sets
    ctx.scopes = ['every formula with <= %d operators of each logic over each of %d atom pairs'
                  % (k, len(atomsets['CTLS']))]
    ctx.exhaustive = True
    f = core.run_sharded(ctx, enum_shard, {'k': k, 'atomsets': atomsets})
    if f is not None:
        ctx.violation(f)
        return

    stride = ctx.pick(29, 3)
    ctx.scopes.append('sampled beyond: every %dth formula with exactly 3 operators of each logic over {p,q} (and a sparser stride of 4 operators), '
                      'every %dth of the context families (a repeated one-operator subformula inside every context of <= 2 operators)' % (stride, stride))
    f = core.run_sharded(ctx, deep_shard, {'stride': stride})
    if f is not None:
        ctx.violation(f)
        return

    ks = ctx.pick([12, 40, 75, 99, 130, 170, 250, 400], [12, 25, 40, 60, 75, 90, 99, 110, 130, 150, 170, 186, 220, 250, 298, 350, 400, 498, 700])
    ctx.scopes.append('nesting: 11 chain/fold/wide shapes per logic at nesting %s (those the library cannot print within the recursion limit are skipped)' % ks)
    f = core.run_sharded(ctx, nesting_shard, {'ks': ks})
    if f is not None:
        ctx.violation(f)
        return

    f = core.run_random(ctx, random_shard, 8000, 60000)
    if f is not None:
        ctx.violation(f)


def random_shard(st, shard, nshards, payload):
    from hypothesis import strategies as hs
    kinds = {'PL': ['pl'], 'LTL': ['ltl_path', 'ltl_state'], 'CTLS': ['ctls_state', 'ctls_path'],
             'CTL': ['ctl', 'ctl_path']}

    @hs.composite
    def cases(draw):
        logic = draw(hs.sampled_from(LOGICS))
        av = atoms_for(logic)
        atoms = tuple(draw(hs.lists(hs.sampled_from(av), min_size=2, max_size=4, unique=True)))
        kd = draw(hs.sampled_from(kinds[logic]))
        if kd == 'ltl_state':
            t = ('A', draw(fm.st_formula('ltl_path', atoms, max_depth=4, max_temporal=6)))
        elif kd == 'ctl_path':
            o = draw(hs.sampled_from(['X', 'F', 'G', 'U', 'R']))
            sub = fm.st_formula('ctl', atoms, max_depth=3)
            t = (o, draw(sub), draw(sub)) if o in 'UR' else (o, draw(sub))
        else:
            t = draw(fm.st_formula(kd, atoms, max_depth=5, max_temporal=6))
        # widen some and/or nodes to arity 4
        if draw(hs.booleans()):
            t = widen(t, draw(hs.integers(0, 3)))
        return {'logic': logic, 'f': t, 'raw': draw(hs.booleans()), 'fresh_parser': False}

    def body(inp):
        t = fm.from_json(inp['f'])
        if not domain_ok(inp['logic'], t):
            raise core.HarnessError('generator produced %r outside %s' % (t, inp['logic']))
        nt = is_nontrivial(t)
        st.random_case(inp, nt)
        st.bump('random logic ' + inp['logic'])
        st.bump('random depth %d' % fm.depth(t))
        if nt:
            st.sample(inp, cls='random-%s-%d' % (inp['logic'], fm.depth(t)))
        return check_roundtrip(inp)

    f = core.hyp_run(payload['seed'] * 1000 + shard, cases(), body, payload['n'])
    if f is not None:
        st.failure = f


def widen(t, which):
    """Turn the which-th and/or node (preorder) into an arity-4 node by repeating operands."""
    count = [0]

    def rec(t):
        if t[0] in fm.LEAF:
            return t
        kids = tuple(rec(c) for c in t[1:])
        if t[0] in ('and', 'or'):
            me = count[0]
            count[0] += 1
            if me == which and len(kids) < 4:
                kids = (kids + kids + kids)[:4 + which % 3]
        return (t[0],) + kids
    return rec(t)
