"""C07 - model checking is a pure function of its arguments.

Rule-based machine over a pool of structures, formula objects and fairness lists; every rule
appends a concrete operation to an op-log executed by `World.do` (ddmin on failure, DESIGN 3.5).
No reference semantics: only snapshots and a memo of earlier outcomes.
"""
from .. import core, fm, km
from ..core import Failure
from .. import graphs

CHECKERS = ['CTL', 'LTL', 'CTLS']
NAMINGS = ['int', 'str', 'tuple', 'mixed', 'zigzag']


class Pristine(object):
    """Client of vp/pristine.py (one server per harness process, started lazily)."""
    _inst = None

    def __init__(self):
        import atexit
        import os
        import subprocess
        import sys
        env = dict(os.environ, PYTHONHASHSEED='0', PYTHONDONTWRITEBYTECODE='1', PYTHONPATH=core.VERIF,
                   VERIF_REPO=core.REPO)
        self.p = subprocess.Popen([sys.executable, '-m', 'vp.pristine'], cwd=core.VERIF, env=env,
                                  stdin=subprocess.PIPE, stdout=subprocess.PIPE, text=True, bufsize=1)
        atexit.register(self.close)

    @classmethod
    def get(cls):
        if cls._inst is None:
            cls._inst = Pristine()
        return cls._inst

    def ask(self, req):
        import json
        try:
            self.p.stdin.write(json.dumps(req) + '\n')
            self.p.stdin.flush()
            line = self.p.stdout.readline()
        except Exception as e:
            raise core.HarnessError('pristine server unreachable: %s' % e)
        if not line:
            raise core.HarnessError('pristine server died')
        ans = json.loads(line)
        if ans and ans[0] == 'harness':
            raise core.HarnessError('pristine child failed: %r' % (ans,))
        return ans

    def close(self):
        try:
            self.p.stdin.close()
            self.p.terminate()
        except Exception:
            pass


def formula_snapshot(obj):
    """Tree, print, heights and (where the accessor is stable) the identity of every node and
    children list of a formula object."""
    nodes = fm.all_nodes(obj)
    stable = all(n.subformulas() is n.subformulas() for n in nodes)
    return {
        'tree': fm.structure(obj),
        'print': str(obj),
        'heights': [getattr(n, 'height', None) for n in nodes],
        'node_ids': [id(n) for n in nodes],
        'list_ids': [id(n.subformulas()) for n in nodes] if stable else None,
        'attrs': [sorted(k for k in vars(n)) for n in nodes],
    }


def global_state():
    """Interpreter-wide state a call has no business changing."""
    import os
    import random
    import sys
    import warnings
    return {
        'recursionlimit': sys.getrecursionlimit(),
        'random': hash(random.getstate()),
        'environ': hash(tuple(sorted(os.environ.items()))),
        'cwd': os.getcwd(),
        'warnings': len(warnings.filters),
        'path': tuple(sys.path),
    }


class World(object):
    def __init__(self):
        self.structs = []     # [kripke, snapshot, K, naming]
        self.forms = []       # [obj, tuple, printed, objlang]
        self.fairs = [None]   # None or list of lists of abstract states
        self.memo = {}
        self.last = None
        self.flags = set()
        self.counts = {}
        self.calls = []       # (struct index) history, to detect interleavings
        self.check_ops = []   # earlier check/clone operations, for 'repeat'
        self.globals0 = global_state()
        self.parsers = {}

    def _bump(self, k):
        self.counts[k] = self.counts.get(k, 0) + 1

    def do(self, op):
        kind = op[0]
        self._bump(kind)
        if kind == 'K':
            _, K, naming, how = op
            kripke = km.to_lib(K, naming, how)
            self.structs.append([kripke, km.snapshot(kripke), K, naming, how])
        elif kind == 'F':
            _, objlang, t = op
            t = fm.from_json(t)
            obj = fm.to_lib(t, fm.lang(objlang))
            self.forms.append([obj, t, str(obj), objlang, formula_snapshot(obj)])
        elif kind == 'fair':
            self.fairs.append(op[1])
        elif kind == 'edit':
            # the CALLER edits its own structure between calls, through the live label set (the only
            # label mutator the API offers); later calls must answer for the structure as it now is
            if not self.structs:
                return None
            _, i, st_, atom_k, add = op
            i %= len(self.structs)
            kripke, snap, K, naming, how = self.structs[i]
            s_ = st_ % K['n']
            atom = ('p', 'q', 'p', 'q', 'r_new')[atom_k % 5]
            name = graphs.NAMINGS[naming](s_)
            lab = kripke.labels(name)
            if add:
                lab.add(atom)
            else:
                lab.discard(atom)
            labels = [list(l) for l in K['labels']]
            labels[s_] = sorted(x for x in kripke.labels(name) if isinstance(x, str))
            self.structs[i] = [kripke, km.snapshot(kripke), dict(K, labels=labels), naming, how]
            self.memo = dict((k, v) for k, v in self.memo.items() if k[0] != i)
            self.flags.add('caller edited a structure between calls')
        elif kind == 'mutate':
            if isinstance(self.last, set):
                if op[1]:
                    self.last.clear()
                else:
                    self.last.add('junk')
                self.flags.add('mutated a returned set')
        elif not self.structs or not self.forms:
            return None
        elif kind == 'repeat':
            if self.check_ops:
                old = self.check_ops[op[1] % len(self.check_ops)]
                # the same query again, directly or on a clone
                _, i, j, k, as_text, checker = old
                return self._check(i % len(self.structs), j % len(self.forms), k % len(self.fairs),
                                   as_text, checker, clone=bool(op[2]))
        elif kind in ('check', 'clone'):
            self.check_ops.append(op)
            _, i, j, k, as_text, checker = op
            i %= len(self.structs)
            j %= len(self.forms)
            k %= len(self.fairs)
            return self._check(i, j, k, as_text, checker, clone=(kind == 'clone'))
        else:
            raise core.HarnessError('unknown op %r' % (op,))
        return None

    def _check(self, i, j, k, as_text, checker, clone):
        kripke, snap, K, naming, how_ = self.structs[i]
        obj, t, printed, objlang, fsnap = self.forms[j]
        F = self.fairs[k]
        L = fm.lang(checker)
        target = kripke.clone() if clone else kripke
        arg = obj
        if as_text:
            arg = printed if objlang != 'CTL' else str(obj.cast_to(fm.lang('CTLS')))
        kw = {}
        if F is not None:
            nm = graphs.NAMINGS[naming]
            kw['F'] = [set(nm(s % K['n']) for s in P) for P in F]
            self.flags.add('call with fairness constraints')
        if checker == 'CTLS' and fm.quant_depth(t) >= 2:
            self.flags.add('CTL* call with nested quantifiers')
        f_before = [set(P) for P in kw['F']] if F is not None else None
        probe = None
        if as_text and (i + j) % 2 == 0:
            # the caller's own parser object through the documented `parser=` argument
            if checker not in self.parsers:
                self.parsers[checker] = L.Parser()
            kw['parser'] = self.parsers[checker]
            probe = kw['parser']
        parser_from = None
        if as_text and (i + j) % 4 == 1:
            # ... or a parser built with the documented `language=` argument: the grammar of a sibling
            # logic producing objects of the checker's logic (CTLS.Parser(language=CTL), ...)
            parser_from = {'CTL': 'CTLS', 'LTL': 'CTLS', 'CTLS': ('CTL', 'LTL')[(i + j) // 4 % 2]}[checker]
            pk = (checker, parser_from)
            if pk not in self.parsers:
                self.parsers[pk] = fm.lang(parser_from).Parser(language=L)
            kw['parser'] = self.parsers[pk]
            self.flags.add('parser built with language= of another logic')
        try:
            with core.quiet():
                res = L.modelcheck(target, arg, **kw)
            if isinstance(res, (set, frozenset)):
                outcome = ('set', frozenset(res))
            else:
                outcome = ('other', repr(type(res)))
            self.last = res
        except Exception as e:
            outcome = ('exc', type(e).__name__)
            self.last = None
        key = (i, j, checker, k, as_text)
        problem = None
        if f_before is not None and [set(P) for P in kw['F']] != f_before:
            return 'the caller\'s fairness argument was modified: %r -> %r' % (f_before, kw['F'])
        if probe is not None:
            # the caller's parser still parses as before
            try:
                ptxt = 'A G (p --> F q)' if checker != 'CTL' else 'A G (p --> A F q)'
                if fm.structure(probe(ptxt)) != fm.structure(L.Parser()(ptxt)):
                    return 'the caller\'s parser object parses differently after %s.modelcheck used it' % checker
            except Exception as e:
                return 'the caller\'s parser object is broken after %s.modelcheck used it: %s' % (checker, e)
        if as_text and 'parser' in kw and outcome[0] == 'set':
            # the caller parses the same text with ITS parser and edits the formula object it got, in
            # place (documented wrap_subformulas); the text and the parser are what they were, so the
            # same call must answer as before
            try:
                g = kw['parser'](arg)
                kids = list(g.subformulas())
                if kids and hasattr(kids[0], 'subformulas'):
                    Lg = fm.lang(fm.module_lang(g) or checker)
                    g.wrap_subformulas([Lg.Bool(False) for _ in kids], Lg.Formula)
                    self.flags.add('caller edited a formula object it got from its own parser')
            except Exception:
                pass                      # an edit the library refuses is not this property's business
            try:
                with core.quiet():
                    res2 = L.modelcheck(target, arg, **kw)
                again = ('set', frozenset(res2)) if isinstance(res2, (set, frozenset)) else ('other', repr(type(res2)))
            except Exception as e:
                again = ('exc', type(e).__name__)
            if again != outcome:
                return ('%s.modelcheck(structure #%d, %r, parser=<the caller\'s parser>) answered %s, and %s after the caller '
                        'parsed the same text itself and edited ITS formula object in place'
                        % (checker, i, arg, show(outcome), show(again)))
        # the same query in a process without history (fresh fork of a pristine interpreter)
        nm = graphs.NAMINGS[naming]
        back = dict((nm(s), s) for s in range(K['n']))
        if outcome[0] == 'set':
            try:
                mine = ['set', sorted(back[s] for s in outcome[1])]
            except (KeyError, TypeError):
                mine = ['other', 'foreign element']
        elif outcome[0] == 'exc':
            mine = ['exc', outcome[1]]
        else:
            mine = ['other', outcome[1]]
        pure = Pristine.get().ask({'K': K, 'naming': naming, 'how': self.structs[i][4], 'f': t, 'objlang': objlang,
                                   'as_text': as_text, 'checker': checker, 'F': F, 'clone': clone, 'parser_from': parser_from})
        self._bump('compared with a process without history')
        if pure != mine:
            return ('%s.modelcheck(structure #%d, formula #%d %r%s) answers %s after this call history but %s '
                    'in a fresh process: the result does not depend on the arguments only'
                    % (checker, i, j, printed, ', F=%r' % (F,) if F is not None else '', mine, pure))
        if key in self.memo:
            if any(c != i for c in self.calls[self.memo[key][1]:]):
                self.flags.add('repeated call with calls on other structures in between')
            if self.memo[key][0] != outcome:
                problem = ('%s.modelcheck(structure #%d, formula #%d %r%s%s) gave %s earlier and %s now'
                           % (checker, i, j, printed, ', F=%r' % (F,) if F is not None else '',
                              ' [on a clone]' if clone else '',
                              show(self.memo[key][0]), show(outcome)))
        else:
            self.memo[key] = (outcome, len(self.calls))
        self.calls.append(i)
        if outcome[0] == 'set':
            self._bump('returned a set')
        else:
            self._bump('raised ' + outcome[1])
        return problem

    def check(self):
        for idx, (kripke, snap, K, naming, how_) in enumerate(self.structs):
            d = km.snapshot_diff(snap, km.snapshot(kripke))
            if d:
                return 'structure #%d was modified: %s' % (idx, d)
        for idx, (obj, t, printed, objlang, fsnap) in enumerate(self.forms):
            try:
                now = formula_snapshot(obj)
            except Exception as e:
                return 'formula #%d unreadable: %s' % (idx, e)
            # hidden caches (extra attributes) and rebuilt-but-equal children lists are not counted as
            # changes of the caller's formula: only its tree, print, heights and node objects are
            for key in ('tree', 'print', 'heights', 'node_ids'):
                if now[key] != fsnap[key] and now[key] is not None and fsnap[key] is not None:
                    return 'formula #%d (%s) was modified: %s changed from %r to %r' % (
                        idx, printed, key, fsnap[key], now[key])
        g = global_state()
        if g != self.globals0:
            diff = [k for k in g if g[k] != self.globals0[k]]
            return 'interpreter-wide state changed: %s' % diff
        return None


def show(outcome):
    if outcome[0] == 'set':
        return 'the set %s' % sorted(map(repr, outcome[1]))
    return '%s %s' % outcome


def run_log(log):
    w = World()
    for i, op in enumerate(log):
        try:
            p = w.do(op)
        except (core.HarnessError, core.Refused):
            raise
        except Exception as e:
            raise core.HarnessError('op %r cannot be executed: %s: %s' % (op, type(e).__name__, e))
        p = p or w.check()
        if p:
            return p, i
    return None, None


def check_history(inp):
    p, at = run_log(inp['log'])
    if p:
        return Failure('history', inp, 'pure function of the arguments', p, 'after operation #%s' % at)
    return None


CHECKS = {'history': check_history}


def replay(ctx, rec):
    return check_history(rec['input'])


def ddmin(log, budget=300):
    def fails(l):
        try:
            p, at = run_log(l)
        except core.HarnessError:
            return False, None
        return p is not None, at

    ok, at = fails(log)
    if not ok:
        return log
    log = log[:at + 1]
    n = 2
    runs = 0
    while len(log) >= 2 and runs < budget:
        chunk = max(1, len(log) // n)
        reduced = False
        for start in range(0, len(log), chunk):
            cand = log[:start] + log[start + chunk:]
            runs += 1
            f, at = fails(cand)
            if f:
                log = cand[:at + 1]
                n = max(n - 1, 2)
                reduced = True
                break
        if not reduced:
            if chunk == 1:
                break
            n = min(len(log), n * 2)
    return log


def machine_shard(st, shard, nshards, payload):
    from hypothesis import strategies as hs, seed
    from hypothesis.stateful import RuleBasedStateMachine, rule, invariant, initialize, \
        run_state_machine_as_test

    found = {}
    totals = {'machines': 0, 'steps': 0}
    flagcount = {}
    opcount = {}
    nontrivial = set()
    idx = hs.integers(0, 5)
    formulas = hs.one_of(
        hs.tuples(hs.just('CTL'), fm.st_formula('ctl', max_depth=3)),
        hs.tuples(hs.just('LTL'), fm.st_formula('ltl_path', max_depth=3, max_temporal=2).map(lambda g: ('A', g))),
        hs.tuples(hs.just('CTLS'), fm.st_formula('ctls_state', max_depth=3, max_temporal=2)),
        hs.tuples(hs.just('CTLS'), fm.st_formula('ctl', max_depth=2)),
        hs.tuples(hs.just('CTLS'), fm.st_formula('ctls_path', max_depth=2, max_temporal=2)),
    )

    class Machine(RuleBasedStateMachine):
        def __init__(self):
            super(Machine, self).__init__()
            self.world = World()
            self.log = []

        def _do(self, op):
            self.log.append(op)
            try:
                p = self.world.do(op)
            except (core.HarnessError, core.Refused):
                raise
            except Exception as e:
                raise core.HarnessError('op %r cannot be executed: %s: %s' % (op, type(e).__name__, e))
            if p:
                self._fail(p)

        def _fail(self, problem):
            found['log'] = list(self.log)
            found['problem'] = problem
            raise AssertionError(problem)

        @initialize(K=km.st_kripke(1, 4), K2=km.st_kripke(1, 4), f=formulas, f2=formulas)
        def setup(self, K, K2, f, f2):
            self._do(['K', K, 'int', 0])
            self._do(['K', K2, 'str', 1])
            self._do(['F', f[0], f[1]])
            self._do(['F', f2[0], f2[1]])

        @rule(K=km.st_kripke(1, 4), naming=hs.sampled_from(NAMINGS), how=hs.integers(0, 5))
        def add_structure(self, K, naming, how):
            self._do(['K', K, naming, how])

        @rule(f=formulas)
        def add_formula(self, f):
            self._do(['F', f[0], f[1]])

        @rule(F=hs.lists(hs.lists(hs.integers(0, 3), max_size=3), max_size=2))
        def add_fairness(self, F):
            self._do(['fair', F])

        @rule(i=idx, j=idx, k=hs.sampled_from([0, 0, 0, 1, 2, 3]), as_text=hs.booleans(),
              checker=hs.sampled_from(CHECKERS))
        def check(self, i, j, k, as_text, checker):
            self._do(['check', i, j, k, as_text, checker])

        @rule(i=idx, j=idx, k=hs.sampled_from([0, 0, 1, 2]), as_text=hs.booleans(),
              checker=hs.sampled_from(CHECKERS))
        def clone_and_check(self, i, j, k, as_text, checker):
            self._do(['clone', i, j, k, as_text, checker])

        @rule(n=hs.integers(0, 30), on_clone=hs.booleans())
        def repeat_earlier_call(self, n, on_clone):
            self._do(['repeat', n, on_clone])

        @rule(n=hs.integers(0, 30))
        def repeat_earlier_call_again(self, n):
            self._do(['repeat', n, False])

        @rule(i=idx, st_=hs.integers(0, 3), atom=hs.integers(0, 4), add=hs.booleans())
        def caller_edits_structure(self, i, st_, atom, add):
            self._do(['edit', i, st_, atom, add])

        @rule(clear=hs.booleans())
        def mutate_returned_set(self, clear):
            self._do(['mutate', clear])

        @invariant()
        def unchanged(self):
            totals['steps'] += 1
            p = self.world.check()
            if p:
                self._fail(p)

        def teardown(self):
            totals['machines'] += 1
            w = self.world
            for f in w.flags:
                flagcount[f] = flagcount.get(f, 0) + 1
            for k, v in w.counts.items():
                opcount[k] = opcount.get(k, 0) + v
            if 'repeated call with calls on other structures in between' in w.flags and \
                    (w.flags & set(['call with fairness constraints', 'CTL* call with nested quantifiers'])):
                nontrivial.add(core.digest(self.log))
                if len(st.samples) < 2:
                    st.samples.append({'log': list(self.log)})

    sett = core.hyp_settings(payload['machines'], shrink=False, stateful_step_count=payload['steps'])
    try:
        run_state_machine_as_test(seed(payload['seed'] * 64 + shard)(Machine), settings=sett)
    except core.HarnessError:
        raise
    except core.Refused as r:
        st.failure = r.failure
        return
    except BaseException as ex:
        # AssertionError from _fail, or Hypothesis' Flaky/ExceptionGroup wrappers around it
        if 'log' not in found:
            raise core.HarnessError('machine crashed: %r' % (ex,))
    st.evaluations += totals['steps']
    st.nontrivial_digests |= nontrivial
    st.add_extra('machines', totals['machines'])
    for k, v in flagcount.items():
        st.bump('machines with: ' + k, v)
    for k, v in opcount.items():
        st.bump('op ' + k, v)
    if 'log' in found:
        small = ddmin(found['log'])
        f = check_history({'log': small})
        if f is None:
            f = Failure('history', {'log': found['log']}, 'pure function of the arguments',
                        found['problem'], 'not reproduced by the op-log interpreter')
        st.failure = f


def run(ctx):
    ctx.rule = ('Hypothesis rule-based machines: a pool of structures (<= 4 states, four state '
                'namings), formula objects of CTL / LTL / CTL* (incl. CTL-shaped and path formulas '
                'as CTL* objects, so out-of-logic calls occur), fairness lists; rules: add structure '
                '/ formula / fairness list, check(i, j, F or None, text or object, checker), '
                'clone-and-check, repeat an earlier call (directly or on a clone), mutate the last returned set, the caller '
                'edits a label set of one of its structures between calls.  Exceptions are outcomes.  '
                'Invariant after every rule: every structure equals its deep snapshot (states, '
                'transitions, contents AND identity of every label and successor set, S0, the labelling dict), every '
                'formula object is unchanged (tree, print, heights, identity of every node), the caller\'s F and parser objects and interpreter-wide state (recursion limit, random state, '
                'environment, sys.path) are unchanged, every '
                'formula has the same tree and print; every call is ALSO made in a freshly forked child of an '
                'interpreter that has never called the library (no history) and must give the same outcome; '
                'every repeated (structure, formula, checker, '
                'F, text?) call reproduces the memoised outcome, also on a clone.  evaluations = '
                'invariant evaluations; a machine is non-trivial if it repeated a call with calls '
                'on other structures in between AND made a call with F or a CTL* call with nested '
                'quantifiers; distinct by digest of the op-log.')
    machines, steps, shards = ctx.pick((40, 30, 16), (250, 60, 16))
    ctx.scopes = ['%d machines x <= %d steps in each of %d processes' % (machines, steps, shards)]
    ctx.assumptions = ['no reference semantics involved; LTL/CTL* formulas <= 2 temporal operators per quantifier']
    f = core.run_sharded(ctx, machine_shard, {'machines': machines, 'steps': steps, 'seed': ctx.seed},
                         nshards=shards)
    if f is not None:
        ctx.violation(f)
