"""C17 - OBDD operations compute the right function, reduced and ordered."""
import itertools

from .. import core, bdd
from ..core import Failure

VARS5 = ('a', 'b', 'c', 'd', 'e', 'f')
OPS = {'and': lambda x, y: x & y, 'or': lambda x, y: x | y, 'xor': lambda x, y: x ^ y}


def _lib():
    from pyModelChecking.BDD import OBDD, BDDNode
    return OBDD, BDDNode


def build(tt, variables, order, how='parse'):
    OBDD, BDDNode = _lib()
    if how == 'nodes':
        # bottom-up through the BDDNode constructor with variable names computed at run time
        return OBDD(bdd.shannon_build(BDDNode, tt, tuple(variables), order), list(order))
    return OBDD(bdd.to_str(bdd.minterm_expr(tt, variables)), list(order))


def inspect(o, exp_tt, variables, order, what):
    """Function, ordering/reducedness and variables() of a result."""
    got = bdd.walk_tt(o.root, variables)
    if got != exp_tt:
        return 'wrong function for %s: expected table %d, got %d' % (what, exp_tt, got)
    prob = bdd.structure_problem(o.root, order)
    if prob:
        return '%s: %s' % (what, prob)
    sup = set(variables[i] for i in bdd.support(exp_tt, len(variables)))
    onnodes = set(x.var for x in bdd.reachable_nodes(o.root) if not bdd.is_terminal(x))
    vs = o.variables()
    if set(vs) != onnodes:
        return '%s: variables() = %s but reachable nodes test %s' % (what, sorted(vs), sorted(onnodes))
    if onnodes != sup:
        return '%s: diagram tests %s but the function depends on %s' % (what, sorted(onnodes), sorted(sup))
    return None


def apply_op(op, x, y):
    if op == 'and':
        return x & y
    if op == 'or':
        return x | y
    return x ^ y


def check_ops(inp):
    """inp: {'nv', 'order', 'f', 'g'}: all binary ops, negation, every restrict(v, b)."""
    nv = inp['nv']
    variables = VARS5[:nv]
    order = list(inp['order'])
    full = bdd.tt_full(nv)
    try:
        of = build(inp['f'], variables, order, inp.get('build_f', 'parse'))
        og = build(inp['g'], variables, list(order), inp.get('build_g', 'parse'))     # an equal list in another object
        if inp.get('build_f') == 'nodes' or inp.get('build_g') == 'nodes':
            # the same functions also exist as parsed diagrams while the operations run
            keep = (build(inp['f'], variables, order), build(inp['g'], variables, order))
        for who, o, tt in (('f', of, inp['f']), ('g', og, inp['g'])):
            p = inspect(o, tt, variables, order, 'parsing ' + who)
            if p:
                return Failure('ops', inp, 'correct reduced ordered diagram', p)
        for op in ('and', 'or', 'xor'):
            r = apply_op(op, of, og)
            p = inspect(r, OPS[op](inp['f'], inp['g']), variables, order, 'f %s g' % op)
            if p:
                return Failure('ops', inp, 'correct reduced ordered diagram', p)
            if not (r.ordering == of.ordering):
                return Failure('ops', inp, 'result keeps the ordering', 'ordering changed by %s' % op)
        # the same object on both sides, and an operand against its own negation
        for op in ('and', 'or', 'xor'):
            p = inspect(apply_op(op, of, of), OPS[op](inp['f'], inp['f']), variables, order, 'f %s f' % op)
            if p is None:
                p = inspect(apply_op(op, of, ~of), OPS[op](inp['f'], full & ~inp['f']), variables, order, 'f %s ~f' % op)
            if p:
                return Failure('ops', inp, 'correct reduced ordered diagram', p)
        r = ~of
        p = inspect(r, full & ~inp['f'], variables, order, '~f')
        if p:
            return Failure('ops', inp, 'correct reduced ordered diagram', p)
        p = inspect(~r, inp['f'], variables, order, '~~f')
        if p:
            return Failure('ops', inp, 'correct reduced ordered diagram', p)
        if not (~r == of):
            return Failure('ops', inp, '~~f == f', 'different OBDD')
        for i, v in enumerate(variables):
            for b in (0, 1, False, True):
                r = of.restrict(v, b)
                p = inspect(r, bdd.cofactor(inp['f'], i, bool(b), nv), variables, order,
                            'f.restrict(%r, %r)' % (v, b))
                if p:
                    return Failure('ops', inp, 'correct reduced ordered diagram', p)
        # operands must be left intact
        for who, o, tt in (('f', of, inp['f']), ('g', og, inp['g'])):
            p = inspect(o, tt, variables, order, who + ' after the operations')
            if p:
                return Failure('ops', inp, 'operands unchanged', p)
    except core.HarnessError:
        raise
    except Exception as e:
        return Failure('ops', inp, 'no exception', 'raised %s: %s' % (type(e).__name__, e))
    return None


def check_errors(inp):
    """Different orderings / variable outside the ordering -> RuntimeError; equal orderings fine."""
    OBDD, BDDNode = _lib()
    nv = inp['nv']
    variables = VARS5[:nv]
    o1 = list(inp['order'])
    o2 = list(inp['order2'])
    try:
        of = build(inp['f'], variables, o1)
        og = build(inp['g'], variables, o2)
    except Exception as e:
        return Failure('errors', inp, 'operands can be built', 'raised %s: %s' % (type(e).__name__, e))
    for op in ('and', 'or', 'xor'):
        try:
            apply_op(op, of, og)
            raised = None
        except Exception as e:
            raised = type(e).__name__
        want = None if o1 == o2 else 'RuntimeError'
        if raised != want:
            return Failure('errors', inp, want or 'no exception', raised or 'no exception',
                           'f %s g with orderings %s / %s' % (op, o1, o2))
    # an ordering that is a proper prefix / extension of the other is a different ordering
    if nv >= 2:
        try:
            short = build(bdd.tt_var(0, nv - 1) if nv > 1 else 1, variables[:nv - 1], [v for v in o1 if v != variables[nv - 1]])
            try:
                apply_op('and', of, short)
                raised = None
            except Exception as e:
                raised = type(e).__name__
            if raised != 'RuntimeError':
                return Failure('errors', inp, 'RuntimeError', raised or 'no exception',
                               'f & g where g\'s ordering lacks the variable %r of f\'s ordering' % variables[nv - 1])
        except core.HarnessError:
            raise
        except Exception as e:
            return Failure('errors', inp, 'operands can be built', 'raised %s: %s' % (type(e).__name__, e))
    # a variable outside the ordering
    outside = inp.get('outside', 'zz')
    for what, fn in (('expression', lambda: OBDD('%s & %s' % (variables[0], outside), o1)),
                     ('bare variable', lambda: OBDD(outside, o1)),
                     ('node', lambda: OBDD(BDDNode(outside, BDDNode(0), BDDNode(1)), o1)),
                     ('node below', lambda: OBDD(BDDNode(o1[0], BDDNode(outside, BDDNode(0), BDDNode(1)),
                                                          BDDNode(1)), o1))):
        try:
            fn()
            raised = None
        except Exception as e:
            raised = type(e).__name__
        if raised != 'RuntimeError':
            return Failure('errors', inp, 'RuntimeError', raised or 'no exception',
                           'variable %r outside ordering %s via %s' % (outside, o1, what))
    return None


def embed(tt, sub, allv):
    """Truth table over allv of a function given by its table over the variables sub."""
    out = 0
    idx = [allv.index(v) for v in sub]
    for k in range(1 << len(allv)):
        j = 0
        for pos, i in enumerate(idx):
            if (k >> i) & 1:
                j |= 1 << pos
        if (tt >> j) & 1:
            out |= 1 << k
    return out


def check_two_orderings(inp):
    """One session, TWO orderings of the same variables (each operation uses one of them): f over the
    variables A and g over the variables B are built and combined under the first ordering, the
    results are kept, then everything is built and combined again under the second ordering, then
    once more under the first.  Hash-consing makes diagrams of different orderings share nodes (all
    of them when the orderings agree on an operand's own variables): every result must still be the
    right function, reduced and ordered for ITS ordering."""
    OBDD, BDDNode = _lib()
    A, B = list(inp['A']), list(inp['B'])
    allv = tuple(sorted(set(inp['order'])))
    n = len(allv)
    full = bdd.tt_full(n)
    fa = inp['fa'] & bdd.tt_full(len(A))
    gb = inp['gb'] & bdd.tt_full(len(B))
    ft, gt = embed(fa, A, allv), embed(gb, B, allv)
    held = []
    try:
        for rnd, order in enumerate((inp['order'], inp['order2'], inp['order'])):
            order = list(order)
            of = OBDD(bdd.to_str(bdd.minterm_expr(fa, tuple(A))), list(order))
            og = OBDD(bdd.to_str(bdd.minterm_expr(gb, tuple(B))), list(order))
            for who, o, tt in (('f', of, ft), ('g', og, gt)):
                p = inspect(o, tt, allv, order, 'round %d, ordering %s: parsing %s' % (rnd, order, who))
                if p:
                    return Failure('two_orderings', inp, 'correct reduced ordered diagram', p)
            res = []
            for op in ('and', 'or', 'xor'):
                for (x, y, xt, yt, nm) in ((of, og, ft, gt, 'f %s g'), (og, of, gt, ft, 'g %s f')):
                    r = apply_op(op, x, y)
                    want = OPS[op](xt, yt)
                    p = inspect(r, want, allv, order, 'round %d, ordering %s: %s' % (rnd, order, nm % op))
                    if p:
                        return Failure('two_orderings', inp, 'correct reduced ordered diagram', p)
                    res.append((r, want, nm % op))
            # results combined with each other: (f op g) xor (g op f) is the constant 0
            for i in range(0, len(res), 2):
                z = res[i][0] ^ res[i + 1][0]
                p = inspect(z, 0, allv, order, 'round %d, ordering %s: (%s) xor (%s)' % (rnd, order, res[i][2], res[i + 1][2]))
                if p:
                    return Failure('two_orderings', inp, 'the constant 0, no variables', p)
                nr = ~res[i][0]
                p = inspect(nr, full & ~res[i][1], allv, order, 'round %d, ordering %s: ~(%s)' % (rnd, order, res[i][2]))
                if p:
                    return Failure('two_orderings', inp, 'correct reduced ordered diagram', p)
                v = order[(i + rnd) % len(order)]
                rr = res[i][0].restrict(v, 1)
                p = inspect(rr, bdd.cofactor(res[i][1], allv.index(v), True, n), allv, order,
                            'round %d, ordering %s: (%s).restrict(%r, 1)' % (rnd, order, res[i][2], v))
                if p:
                    return Failure('two_orderings', inp, 'correct reduced ordered diagram', p)
            held.append((order, of, og, res))
            # everything built in earlier rounds is still what it was
            for (o_, f_, g_, res_) in held:
                for (r, want, nm) in res_:
                    p = inspect(r, want, allv, o_, 'result %s of ordering %s, looked at again in round %d' % (nm, o_, rnd))
                    if p:
                        return Failure('two_orderings', inp, 'earlier results unchanged', p)
    except core.HarnessError:
        raise
    except Exception as e:
        return Failure('two_orderings', inp, 'no exception', 'raised %s: %s' % (type(e).__name__, e))
    return None


def check_structured(inp):
    """SIZE and STRUCTURE: 8-12 variables, functions with a regular structure (parity, comparator,
    threshold, alternating chains) built with the operators from single-variable diagrams, under a
    natural, a reversed and an interleaved/grouped ordering; every intermediate result, chained
    restrictions and negations are inspected against harness truth tables."""
    OBDD, BDDNode = _lib()
    n, family = inp['n'], inp['family']
    vs = tuple('v%02d' % i for i in range(n))
    kind = inp.get('order', 'natural')
    if kind == 'natural':
        order = list(vs)
    elif kind == 'reversed':
        order = list(reversed(vs))
    else:                                   # even-indexed variables first, then the odd-indexed ones
        order = list(vs[::2]) + list(vs[1::2])
    full = bdd.tt_full(n)
    T = [bdd.tt_var(i, n) for i in range(n)]

    def chk(o, tt, what):
        p = inspect(o, tt, vs, order, '%s (%d variables, %s ordering): %s' % (family, n, kind, what))
        return Failure('structured', inp, 'correct reduced ordered diagram', p) if p else None

    try:
        X = [OBDD(v, list(order)) for v in vs]
        steps = []
        if family == 'parity':
            acc, tt = X[0], T[0]
            for i in range(1, n):
                acc, tt = acc ^ X[i], tt ^ T[i]
                steps.append((acc, tt, 'xor of the first %d variables' % (i + 1)))
        elif family == 'comparator':
            acc, tt = None, None
            for i in range(0, n - 1, 2):
                eq, et = ~(X[i] ^ X[i + 1]), full & ~(T[i] ^ T[i + 1])
                acc, tt = (eq, et) if acc is None else (acc & eq, tt & et)
                steps.append((acc, tt, 'pairs equal up to variable %d' % (i + 1)))
        elif family == 'threshold':
            # at least two of the variables are true
            acc, tt = X[0] & X[1], T[0] & T[1]
            any_, at = X[0] | X[1], T[0] | T[1]
            for i in range(2, n):
                acc, tt = acc | (any_ & X[i]), tt | (at & T[i])
                any_, at = any_ | X[i], at | T[i]
                steps.append((acc, tt, 'at least two of the first %d' % (i + 1)))
        elif family == 'alternating':
            acc, tt = X[n - 1], T[n - 1]
            for i in range(n - 2, -1, -1):
                if i % 2:
                    acc, tt = X[i] | acc, T[i] | tt
                else:
                    acc, tt = X[i] & acc, T[i] & tt
                steps.append((acc, tt, 'chain from variable %d' % i))
        elif family == 'skip':
            # a function in which the middle variables matter on one branch only
            lo = X[1] & X[n - 1]
            lt = T[1] & T[n - 1]
            hi, ht = X[1], T[1]
            for i in range(2, n - 1):
                hi, ht = hi ^ X[i], ht ^ T[i]
            acc, tt = (X[0] & hi) | (~X[0] & lo), (T[0] & ht) | (full & ~T[0] & lt)
            steps.append((acc, tt, 'if v00 then parity of the middle else v01 and the last'))
        else:
            raise core.HarnessError('unknown family %r' % (family,))
        for (o, tt, what) in steps[-4:] + steps[:2]:
            f = chk(o, tt, what)
            if f:
                return f
        o, tt, what = steps[-1]
        f = chk(~o, full & ~tt, 'negation of the last result')
        if f:
            return f
        # chained restrictions, from the top, the bottom and the middle of the ordering
        r, rt = o, tt
        for j, v in enumerate([order[0], order[-1], order[n // 2], order[1], order[n // 2 + 1]]):
            b = (1, 0, True, False, 1)[j]
            r, rt = r.restrict(v, b), bdd.cofactor(rt, vs.index(v), bool(b), n)
            f = chk(r, rt, 'after restricting %s' % ', '.join('%s=%r' % (order_v, (1, 0, True, False, 1)[k])
                                                                for k, order_v in enumerate([order[0], order[-1], order[n // 2], order[1], order[n // 2 + 1]][:j + 1])))
            if f:
                return f
        f = chk(o, tt, 'the last result after everything else was computed')
        if f:
            return f
    except core.HarnessError:
        raise
    except Exception as e:
        return Failure('structured', inp, 'no exception', 'raised %s: %s' % (type(e).__name__, str(e)[:200]))
    return None


def check_crowded(inp):
    """A CROWDED session: every cube and every clause over n variables is alive (tens of thousands of
    nodes; the terminals and the literals have thousands of parents), built through BDDNode; then
    operations whose results must collapse onto existing nodes: (u & v) | (~u & v) is v, u ^ u is 0,
    (u | v) & (u | ~v) is u, for literals u, v from the top, the middle and the bottom of the ordering."""
    OBDD, BDDNode = _lib()
    n = inp['n']
    vs = tuple('x%02d' % i for i in range(n))
    order = list(vs)
    T0, T1 = BDDNode(0), BDDNode(1)
    keep = []
    try:
        # all cubes / clauses over the suffixes of the ordering, bottom-up (sharing makes this 2^(n+2) nodes)
        level = {(): (T1, T0)}                     # assignment of the variables below -> (cube node, clause node)
        for i in range(n - 1, -1, -1):
            nxt_level = {}
            for key, (cube, clause) in level.items():
                for b in (0, 1):
                    c = BDDNode(vs[i], T0, cube) if b else BDDNode(vs[i], cube, T0)
                    d = BDDNode(vs[i], clause, T1) if b else BDDNode(vs[i], T1, clause)
                    nxt_level[(b,) + key] = (c, d)
            keep.append(level)
            level = nxt_level
            if len(level) > inp.get('cap', 1 << 14):
                # enough alive: continue with a slice of the assignments only
                level = dict(list(level.items())[:inp.get('cap', 1 << 14)])
        keep.append(level)
        lits = [OBDD(BDDNode(v, T0, T1), list(order)) for v in vs]
        picks = [0, 1, n // 2, n - 2, n - 1]

        def shape_problem(r, want):
            """want: ('lit', i) | ('const', b).  The reduced ordered diagram of a literal is one node over the
            two terminals; of a constant, a terminal (checked by shape: truth tables over 15 variables are slow)."""
            root = r.root
            if want[0] == 'const':
                if not bdd.is_terminal(root) or bool(root.value) != bool(want[1]):
                    return 'expected the constant %d, got a diagram testing %s' % (want[1], sorted(x.var for x in bdd.reachable_nodes(root) if not bdd.is_terminal(x)))
                return None if not list(r.variables()) else 'variables() = %s for a constant' % sorted(r.variables())
            v = vs[want[1]]
            nodes_ = [x for x in bdd.reachable_nodes(root) if not bdd.is_terminal(x)]
            if bdd.is_terminal(root) or root.var != v or not bdd.is_terminal(root.low) or not bdd.is_terminal(root.high) or \
                    bool(root.low.value) or not bool(root.high.value):
                return 'expected the one-node diagram of %s, got a diagram with %d inner nodes testing %s' % (
                    v, len(nodes_), sorted(set(x.var for x in nodes_)))
            if set(r.variables()) != set([v]):
                return 'variables() = %s, expected [%r]' % (sorted(r.variables()), v)
            return None

        for a in picks:
            for b in picks:
                if a == b:
                    continue
                u, v = lits[a], lits[b]
                for what, r, want in (('(u & v) | (~u & v)', (u & v) | (~u & v), ('lit', b)),
                                      ('(u | v) & (u | ~v)', (u | v) & (u | ~v), ('lit', a)),
                                      ('u ^ u', u ^ u, ('const', 0)),
                                      ('(u & v) | (u & ~v) | (~u)', (u & v) | (u & ~v) | (~u), ('const', 1))):
                    p = shape_problem(r, want)
                    if p:
                        return Failure('crowded', inp, 'correct reduced ordered diagram',
                                       '%s with u=%s, v=%s in a session with all cubes and clauses of %d variables alive: %s' % (what, vs[a], vs[b], n, p))
    except core.HarnessError:
        raise
    except MemoryError:
        raise core.HarnessError('not enough memory for the crowded session')
    except Exception as e:
        return Failure('crowded', inp, 'no exception', 'raised %s: %s' % (type(e).__name__, str(e)[:200]))
    finally:
        keep = None
    return None


def crowded_shard(st, shard, nshards, payload):
    for i, n in enumerate(payload['ns']):
        if i % nshards != shard:
            continue
        inp = {'n': n, 'cap': 1 << 15}
        st.evaluations += 80
        st.nontrivial += 80
        st.bump('crowded session over %d variables' % n)
        st.sample(inp, cls='crowded')
        f = check_crowded(inp)
        if f is not None and st.failure is None:
            st.failure = f


STRUCT_FAMILIES = ['parity', 'comparator', 'threshold', 'alternating', 'skip']


def structured_shard(st, shard, nshards, payload):
    i = -1
    for n in payload['ns']:
        for family in STRUCT_FAMILIES:
            for kind in ('natural', 'reversed', 'split'):
                i += 1
                if i % nshards != shard:
                    continue
                inp = {'n': n, 'family': family, 'order': kind}
                st.evaluations += 1
                st.nontrivial += 1
                st.bump('structured functions over %d variables' % n)
                if kind == 'split':
                    st.sample(inp, cls='structured-' + family)
                f = check_structured(inp)
                if f is not None:
                    if st.failure is None:
                        st.failure = f
                    return


CHECKS = {'ops': check_ops, 'errors': check_errors, 'two_orderings': check_two_orderings, 'structured': check_structured,
          'crowded': check_crowded}


def replay(ctx, rec):
    return CHECKS[rec['check']](rec['input'])


def root_relation(of, og, order):
    a, b = of.root, og.root
    if bdd.is_terminal(a) or bdd.is_terminal(b):
        return 'terminal operand'
    pa, pb = order.index(a.var), order.index(b.var)
    return 'A<B' if pa < pb else ('A=B' if pa == pb else 'A>B')


def enum_shard(st, shard, nshards, payload):
    nv = payload['nv']
    variables = VARS5[:nv]
    nfun = 1 << (1 << nv)
    full = bdd.tt_full(nv)
    stride = payload.get('stride', 1)
    idx = -1
    for order in itertools.permutations(variables):
        order = list(order)
        try:
            fs = [build(t, variables, order) for t in range(nfun)]
        except Exception as e:
            # the code under test cannot even parse an operand: find which and report it
            for t in range(nfun):
                fr = check_ops({'nv': nv, 'order': order, 'f': t, 'g': t})
                if fr is not None:
                    if st.failure is None:
                        st.failure = fr
                    return
            raise
        for t in range(nfun):
            p = inspect(fs[t], t, variables, order, 'parsing')
            if p and st.failure is None:
                st.failure = check_ops({'nv': nv, 'order': order, 'f': t, 'g': t}) or \
                    Failure('ops', {'nv': nv, 'order': order, 'f': t, 'g': t}, 'correct diagram', p)
                return
        for f in range(nfun):
            for g in range(nfun):
                idx += 1
                if idx % nshards != shard:
                    continue
                if stride > 1 and (idx // nshards) % stride:
                    continue
                rel = root_relation(fs[f], fs[g], order)
                for op in ('and', 'or', 'xor'):
                    st.evaluations += 1
                    exp = OPS[op](f, g)
                    try:
                        r = apply_op(op, fs[f], fs[g])
                        p = inspect(r, exp, variables, order, 'f %s g' % op)
                    except Exception as e:
                        p = 'raised %s' % type(e).__name__
                    st.bump('root relation ' + rel)
                    if rel != 'terminal operand' and exp not in (0, full):
                        st.nontrivial += 1
                    if p:
                        inp = {'nv': nv, 'order': order, 'f': f, 'g': g}
                        fr = check_ops(inp) or Failure('ops', inp, 'correct diagram', p,
                                                       'only within the enumeration history')
                        if st.failure is None:
                            st.failure = fr
                        return
                if g == (f * 7 + 3) % nfun:
                    # unary operations and error cases once per f
                    inp = {'nv': nv, 'order': order, 'f': f, 'g': g}
                    st.evaluations += 2
                    fr = check_ops(inp) or check_ops(dict(inp, build_f='nodes', build_g='parse' if f % 2 else 'nodes'))
                    if fr is None:
                        o2 = order[1:] + order[:1] if nv > 1 else order
                        st.evaluations += 1
                        st.bump('error-case checks')
                        fr = check_errors(dict(inp, order2=o2 if f % 2 else order))
                    if fr is not None:
                        if st.failure is None:
                            st.failure = fr
                        return
                    if f % 29 == 0:
                        st.sample(inp, cls='enum-%d-%s' % (nv, rel))


def run(ctx):
    from hypothesis import strategies as hs
    ctx.rule = ('functions are truth tables; each is parsed from its minterm expression under an '
                'ordering (a share of the operands is instead built bottom-up through BDDNode with variable names '
                'computed at run time); all ordered pairs (f,g) x {&,|,^}, ~f, ~~f and f.restrict(v,b) for every '
                'variable (in or out of the support) and b in {0,1,False,True}.  Oracle: diagram '
                'walked on every assignment = pointwise operation on the tables; every reachable '
                'node tests a variable strictly before its children\'s and has distinct children; '
                'variables() = variables on reachable nodes = semantic support (sharing of equal '
                'diagrams is C16\'s property and is not asserted here); RuntimeError exactly for different orderings / outside variables. '
                'Non-trivial = both operand roots non-terminal and the result not constant; the '
                'three root relations A<B, A=B, A>B are counted.')
    if ctx.thorough:
        payloads = [{'nv': 1}, {'nv': 2}, {'nv': 3}]
        ctx.scopes = ['all functions of <=3 variables x all orderings x all ordered pairs x {&,|,^}']
    else:
        payloads = [{'nv': 1}, {'nv': 2}, {'nv': 3, 'stride': 6}]
        ctx.scopes = ['all functions of <=2 variables x all orderings x all pairs',
                      'every 6th ordered pair of the 256 functions of 3 variables x 6 orderings']
    ctx.exhaustive = True
    for p in payloads:
        f = core.run_sharded(ctx, enum_shard, p)
        if f is not None:
            ctx.violation(f)
            return

    sp = {'ns': ctx.pick([8, 11], [7, 8, 10, 12, 13])}
    ctx.scopes.append('structured functions (parity, comparator, threshold, alternating chain, skipped middle) over %s variables under a natural, '
                      'a reversed and a split ordering, with chained restrictions' % sp['ns'])
    f = core.run_sharded(ctx, structured_shard, sp)
    if f is not None:
        ctx.violation(f)
        return
    cn = ctx.pick([14, 15], [13, 14, 15, 16])
    ctx.scopes.append('crowded sessions: every cube and clause over %s variables alive (up to ~10^5 nodes, terminals and literals with tens of '
                      'thousands of parents), then operations whose results must collapse onto existing nodes' % cn)
    # one fresh process per session (a crowded session must not be the parent of later worker processes)
    f = core.run_sharded(ctx, crowded_shard, {'ns': cn}, nshards=len(cn))
    if f is not None:
        ctx.violation(f)
        return

    f = core.run_random(ctx, random_shard, 2400, 24000)
    if f is not None:
        ctx.violation(f)


def random_shard(st, shard, nshards, payload):
    from hypothesis import strategies as hs
    @hs.composite
    def case_s(draw):
        nv = draw(hs.sampled_from([4, 4, 5, 6]))
        vs = list(VARS5[:nv])
        top = (1 << (1 << nv)) - 1
        return {'nv': nv, 'order': list(draw(hs.permutations(vs))), 'order2': list(draw(hs.permutations(vs))),
                'f': draw(hs.integers(0, top)), 'g': draw(hs.integers(0, top)), 'dense': draw(hs.booleans()),
                'build_f': draw(hs.sampled_from(['parse', 'parse', 'nodes'])),
                'build_g': draw(hs.sampled_from(['parse', 'nodes']))}
    case = case_s()

    def body(inp):
        inp = dict(inp)
        if not inp.pop('dense'):
            # structured functions (few minterms or few maxterms) as well as dense ones
            inp['f'] &= (inp['g'] >> 3) | 0x0F0F0F0F
        full = bdd.tt_full(inp['nv'])
        nt = all(OPS[o](inp['f'], inp['g']) not in (0, full) for o in OPS)
        st.random_case(inp, nt)
        st.bump('random %d-variable cases' % inp['nv'])
        if nt:
            st.sample(inp, cls='random-%s' % ''.join(inp['order'][:2]))
        fr = check_ops(inp)
        if fr is None:
            fr = check_errors(inp)
        return fr

    f = core.hyp_run(payload['seed'] * 1000 + shard, case, body, payload['n'])
    if f is not None:
        st.failure = f
        return

    names = list(VARS5) + ['g', 'h', 'i']

    @hs.composite
    def two_s(draw):
        n = draw(hs.sampled_from([3, 4, 5, 6, 7, 8, 9]))
        vs = names[:n]
        kind = draw(hs.sampled_from(['disjoint', 'disjoint', 'disjoint', 'overlap', 'any']))
        perm = list(draw(hs.permutations(vs)))
        a = draw(hs.integers(1, min(6, n - 1)))
        A = sorted(perm[:a])
        if kind == 'disjoint':
            rest = perm[a:]
            B = sorted(rest[:draw(hs.integers(1, min(4, len(rest))))])
        else:
            B = sorted(draw(hs.lists(hs.sampled_from(vs), min_size=1, max_size=min(4, n), unique=True)))
        order = list(draw(hs.permutations(vs)))
        if kind == 'any':
            order2 = list(draw(hs.permutations(vs)))
        else:
            # another interleaving that keeps the relative order inside A and inside the rest
            sa = [v for v in order if v in A]
            sb = [v for v in order if v not in A]
            picks = draw(hs.lists(hs.booleans(), min_size=n, max_size=n))
            order2 = []
            for pk in picks:
                src = sa if (pk and sa) or not sb else sb
                order2.append(src.pop(0))
        fa = draw(hs.integers(1, bdd.tt_full(len(A)) - 1))
        if draw(hs.booleans()):
            fa = draw(hs.integers(0, bdd.tt_full(len(A)))) ^ (fa >> 1)      # denser tables: bigger diagrams
        return {'A': A, 'B': B, 'fa': fa, 'gb': draw(hs.integers(1, max(1, bdd.tt_full(len(B)) - 1))),
                'order': order, 'order2': order2, 'kind': kind}

    def body2(inp):
        nt = inp['order'] != inp['order2'] and len(inp['A']) >= 3
        st.random_case(inp, nt)
        st.bump('two orderings in one session: %s supports, %d variables' % (inp['kind'], len(inp['order'])))
        if len(inp['A']) >= 5 and inp['kind'] == 'disjoint' and inp['order'] != inp['order2']:
            st.bump('two orderings: left operand over >= 5 variables, disjoint supports, different interleavings')
        if nt:
            st.sample(inp, cls='two-orderings-%s' % inp['kind'])
        return check_two_orderings(inp)

    f = core.hyp_run(payload['seed'] * 1000 + 300 + shard, two_s(), body2, max(20, payload['n'] // 3))
    if f is not None:
        st.failure = f
