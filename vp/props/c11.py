"""C11 - formula equality, hashing and cloning are coherent."""
from .. import core, fm
from ..core import Failure
from .c09 import scope_formulas, atoms_for, LOGICS


def build2(logic, t):
    L = fm.lang(logic)
    return fm.to_lib(t, L), fm.to_lib(t, L, raw_leaves=True)


def check_pair(inp):
    """inp: {'logic', 'f', 'g'}: == iff same tree, hash, set/dict, symmetry."""
    logic = inp['logic']
    L = fm.lang(logic)
    tf, tg = fm.from_json(inp['f']), fm.from_json(inp['g'])
    try:
        # 'share': subformula OBJECTS reused inside a formula (a: only f, b: only g, both: each its own,
        # common: one pool for the two formulas)
        sh = inp.get('share')
        pool_a = {} if sh in ('a', 'both', 'common') else None
        pool_b = pool_a if sh == 'common' else ({} if sh in ('b', 'both') else None)
        a = fm.to_lib(tf, L, share=pool_a)
        b = fm.to_lib(tg, L, raw_leaves=inp.get('raw', False), share=pool_b)
        same = (tf == tg)
        eq_ab = (a == b)
        eq_ba = (b == a)
        ne_ab = (a != b)
        if not isinstance(eq_ab, bool) and eq_ab not in (True, False):
            return Failure('pair', inp, 'a boolean', repr(eq_ab))
        if bool(eq_ab) != same or bool(eq_ba) != same:
            return Failure('pair', inp, '== is %s in both directions' % same,
                           'f==g: %s, g==f: %s' % (eq_ab, eq_ba))
        if bool(ne_ab) == same:
            return Failure('pair', inp, '!= is the negation of ==', 'f!=g: %s' % ne_ab)
        if not (a == a) or not (b == b):
            return Failure('pair', inp, 'reflexive', 'f == f is False')
        if same and hash(a) != hash(b):
            return Failure('pair', inp, 'equal hashes for equal formulas', '%d vs %d' % (hash(a), hash(b)))
        n = len(set([a, b]))
        d = {a: 1}
        d[b] = 2
        if (n == 1) != same or (len(d) == 1) != same:
            return Failure('pair', inp, 'one key in sets/dicts iff equal',
                           'set size %d, dict size %d' % (n, len(d)))
        if same and d[a] != 2:
            return Failure('pair', inp, 'b overwrites a in a dict', 'it did not')
        if (b in set([a])) != same or (b in [a]) != same:
            return Failure('pair', inp, 'membership iff equal', 'in-set %s' % (b in set([a])))
    except core.HarnessError:
        raise
    except Exception as e:
        return Failure('pair', inp, 'no exception', 'raised %s: %s' % (type(e).__name__, e))
    return None


def check_clone(inp):
    logic = inp['logic']
    L = fm.lang(logic)
    t = fm.from_json(inp['f'])
    try:
        a = fm.to_lib(t, L, raw_leaves=inp.get('raw', False), share={} if inp.get('share') else None)
        c = a.clone()
        if fm.structure(c) != t:
            return Failure('clone', inp, list(t), list(fm.structure(c)), 'clone has another tree')
        if fm.structure(a) != t:
            return Failure('clone', inp, list(t), list(fm.structure(a)), 'clone() changed the original')
        if not (c == a) or not (a == c) or hash(a) != hash(c):
            return Failure('clone', inp, 'clone == original with equal hash', 'not equal')
        ids = set(id(x) for x in fm.all_nodes(a))
        for x in fm.all_nodes(c):
            if id(x) in ids:
                return Failure('clone', inp, 'no shared node', 'node %s %s is shared' % (
                    type(x).__name__, fm.structure(x)))
            if type(x) is not type(_node_like(a, c, x)):
                return Failure('clone', inp, 'same classes', 'class differs')
        bad = fm.foreign_node(c, logic)
        if bad:
            return Failure('clone', inp, 'a clone of logic %s' % logic, bad)
        # the children lists are distinct mutable lists as well
        la = [x.subformulas() for x in fm.all_nodes(a) if x.subformulas()]
        lc = [x.subformulas() for x in fm.all_nodes(c) if x.subformulas()]
        if set(map(id, la)) & set(map(id, lc)):
            return Failure('clone', inp, 'no shared children list', 'a children list is shared')
    except core.HarnessError:
        raise
    except Exception as e:
        return Failure('clone', inp, 'no exception', 'raised %s: %s' % (type(e).__name__, e))
    return None


def _node_like(a, c, x):
    """Node of a at the same preorder position as x in c."""
    na, nc = fm.all_nodes(a), fm.all_nodes(c)
    for i, y in enumerate(nc):
        if y is x:
            return na[i]
    return x


def check_bool(inp):
    """Bool(b) == b in both directions, Bool(b) != (not b), across every logic."""
    logic = inp['logic']
    L = fm.lang(logic)
    try:
        for b in (True, False):
            B = L.Bool(b)
            if not (B == b) or not (b == B):
                return Failure('bool', inp, 'Bool(%s) == %s both ways' % (b, b),
                               'Bool==b: %s, b==Bool: %s' % (B == b, b == B))
            if (B == (not b)) or ((not b) == B):
                return Failure('bool', inp, 'Bool(%s) != %s' % (b, not b), 'reported equal')
            if (B != b) or (b != B):
                return Failure('bool', inp, '!= consistent', 'Bool(%s) != %s is True' % (b, b))
            if not (B == L.Bool(b)) or hash(B) != hash(L.Bool(b)) or (B == L.Bool(not b)):
                return Failure('bool', inp, 'Bool equality by value', 'broken')
            if len(set([B, L.Bool(b)])) != 1 or len(set([B, L.Bool(not b)])) != 2:
                return Failure('bool', inp, 'Bool as set key', 'broken')
            c = B.clone()
            if c is B or not (c == B) or fm.structure(c) != fm.structure(B):
                return Failure('bool', inp, 'fresh equal clone', 'broken')
            for name in ('p', 'q', 'tru', 'fals', 'True', 'False'):
                if B == L.AtomicProposition(name) or L.AtomicProposition(name) == B:
                    return Failure('bool', inp, 'Bool != atom %s' % name, 'reported equal')
    except Exception as e:
        return Failure('bool', inp, 'no exception', 'raised %s: %s' % (type(e).__name__, e))
    return None


CHECKS = {'deep': lambda inp: (lambda r: None if r == 'recursion' else r)(check_deep(inp)),
          'pair': check_pair, 'clone': check_clone, 'bool': check_bool}


def replay(ctx, rec):
    return CHECKS[rec['check']](rec['input'])


def arity_neighbours(t):
    """Trees that differ from t only in the operand COUNT of one and/or node (operands appended
    or dropped at the end): near misses for an equality that walks operands pairwise."""
    out = []

    def rec(t, rebuild):
        if t[0] in fm.LEAF:
            return
        if t[0] in ('and', 'or'):
            out.append(rebuild(t + (t[1],)))
            out.append(rebuild(t + (t[-1],)))
            if len(t) > 3:
                out.append(rebuild(t[:-1]))
        for i, c in enumerate(t[1:]):
            rec(c, lambda x, i=i, t=t, rebuild=rebuild: rebuild(t[:i + 1] + (x,) + t[i + 2:]))
    rec(t, lambda x: x)
    return out


def deep_scope(logic, atoms, stride):
    """Every stride-th formula of the logic with exactly 3 operators over the atoms."""
    leaves = tuple(('ap', a) for a in atoms)
    if logic == 'PL':
        return fm.enum_strided(fm.PL_UN, fm.PL_BIN, leaves + (fm.TRUE, fm.FALSE), 3, max(1, stride // 4))
    if logic == 'CTL':
        return fm.enum_strided(fm.CTL_UN, fm.CTL_BIN, leaves, 3, stride * 3)
    if logic == 'LTL':
        paths = fm.enum_strided(fm.LTL_UN, fm.LTL_BIN, leaves, 3, stride)
        return paths + [('A', g) for g in paths[::2]]
    un = fm.LTL_UN + [('A', lambda f: ('A', f)), ('E', lambda f: ('E', f))]
    return fm.enum_strided(un, fm.LTL_BIN, leaves, 3, stride)


def shared_pairs(logic, stride):
    """(f, g) with a compound subformula occurring at least twice in f and g differing from f in ONE of
    the occurrences only (or not at all): the cases in which it matters that the occurrences are one
    object."""
    un_s = fm.LTL_UN + [('A', lambda f: ('A', f)), ('E', lambda f: ('E', f))]
    un, bn = {'PL': (fm.PL_UN, fm.PL_BIN), 'CTL': (fm.CTL_UN, fm.CTL_BIN), 'LTL': (fm.LTL_UN, fm.LTL_BIN),
              'CTLS': (un_s, fm.LTL_BIN)}[logic]
    ctxs = fm.contexts(un, bn, 2, 'c11-' + logic)
    subs = fm.enum_exact(un, bn, (fm.P, fm.Q), 1, 'c11s-' + logic)
    out = []
    i = 0
    for c in ctxs:
        n = fm._count(c, fm.SLOT)
        for si, s_ in enumerate(subs):
            i += 1
            if i % stride:
                continue
            s2 = subs[(si * 5 + 3) % len(subs)]
            if s2 == s_:
                s2 = subs[(si + 1) % len(subs)]
            f = fm.subst(c, fm.SLOT, s_)
            for pos in range(n):
                g = fm.subst_each(c, fm.SLOT, [s2 if j == pos else s_ for j in range(n)])
                if fm.kind(logic, f) and fm.kind(logic, g):
                    out.append((f, g))
    return out


def _compositions(k):
    """All ways to cut a sequence of k items into >= 2 consecutive groups."""
    out = []
    for mask in range(1, 1 << (k - 1)):
        parts, cur = [], 1
        for i in range(k - 1):
            if (mask >> i) & 1:
                parts.append(cur)
                cur = 1
            else:
                cur += 1
        parts.append(cur)
        out.append(parts)
    return out


def regroup_trees(logic, k, outer, inner):
    """The SAME k leaves in the same order under the same two operators, grouped differently:
    (a or b or c) and (d or e)  /  (a or b) and (c or d or e)  / ..."""
    leaves = [('ap', 'l%d' % i) for i in range(k)]
    out = []
    for parts in _compositions(k):
        if outer in ('imp', 'U', 'R') and len(parts) != 2:
            continue
        groups, pos = [], 0
        for n_ in parts:
            g = leaves[pos:pos + n_]
            pos += n_
            groups.append(g[0] if n_ == 1 else (inner,) + tuple(g))
        t = (outer,) + tuple(groups)
        if fm.kind(logic, t) is not None:
            out.append(t)
    return out


def regroup_shard(st, shard, nshards, payload):
    wraps = {'PL': [lambda t: t, lambda t: ('not', t)],
             'LTL': [lambda t: t, lambda t: ('G', t), lambda t: ('A', ('F', t))],
             'CTLS': [lambda t: t, lambda t: ('A', ('G', t)), lambda t: ('X', t)],
             'CTL': [lambda t: t, lambda t: ('A', ('G', t)), lambda t: ('not', ('E', ('X', t)))]}
    combos = [('and', 'or'), ('or', 'and'), ('and', 'and'), ('or', 'or'), ('imp', 'and'), ('imp', 'or')]
    i = -1
    for logic in LOGICS:
        ops = combos + ([('U', 'and'), ('R', 'or')] if logic in ('LTL', 'CTLS') else [])
        for (outer, inner) in ops:
            for k in payload['ks']:
                trees = regroup_trees(logic, k, outer, inner)
                for wi, w in enumerate(wraps[logic]):
                    ts = [w(t) for t in trees]
                    ts = [t for t in ts if fm.kind(logic, t) is not None]
                    for a in range(len(ts)):
                        for b in range(a + 1, len(ts)):
                            i += 1
                            if i % nshards != shard:
                                continue
                            st.evaluations += 1
                            st.nontrivial += 1
                            st.bump('regrouped operands')
                            if i % 499 == 0:
                                st.sample({'logic': logic, 'f': ts[a], 'g': ts[b]}, cls='regroup-' + logic)
                            r = check_pair({'logic': logic, 'f': ts[a], 'g': ts[b], 'raw': bool(i % 2)}) or \
                                check_pair({'logic': logic, 'f': ts[b], 'g': ts[a]})
                            if r is not None:
                                if st.failure is None:
                                    st.failure = r
                                return


def shared_shard(st, shard, nshards, payload):
    i = -1
    for logic in LOGICS:
        for (f, g) in shared_pairs(logic, payload['stride']):
            i += 1
            if i % nshards != shard:
                continue
            for mode in ('a', 'b', 'both', 'common'):
                st.evaluations += 1
                st.nontrivial += 1
                st.bump('shared subformula objects: %s' % mode)
                r = check_pair({'logic': logic, 'f': f, 'g': g, 'share': mode}) or \
                    check_pair({'logic': logic, 'f': g, 'g': f, 'share': mode}) or \
                    check_pair({'logic': logic, 'f': f, 'g': f, 'share': mode})
                if r is None and mode == 'a':
                    r = check_clone({'logic': logic, 'f': f, 'share': True})
                if r is not None:
                    if st.failure is None:
                        st.failure = r
                    return
            if i % 997 == 0:
                st.sample({'logic': logic, 'f': f, 'g': g, 'share': 'a'}, cls='shared-' + logic)


def check_provenance(inp):
    """Equality does not depend on where an equal formula object CAME FROM: a pickle round trip (saved to
    disk, sent to a worker process), copy.deepcopy, copy.copy, clone() and a second construction all
    give objects equal to the original, with equal hashes, one key in sets and dicts - and different
    from a formula that differs in one atom."""
    import copy
    import pickle
    logic = inp['logic']
    L = fm.lang(logic)
    t = fm.from_json(inp['f'])
    other = fm.rename_atoms(t, dict((a, a + '_') for a in fm.atoms(t))) if fm.atoms(t) else ('not', t)
    try:
        a = fm.to_lib(t, L, raw_leaves=inp.get('raw', False))
        b = fm.to_lib(other, L) if fm.kind(logic, other) else None
        twins = {'a second construction': fm.to_lib(t, L), 'clone()': a.clone(), 'copy.deepcopy': copy.deepcopy(a),
                 'copy.copy': copy.copy(a)}
        for proto in (0, 2, pickle.HIGHEST_PROTOCOL):
            twins['pickle round trip (protocol %d)' % proto] = pickle.loads(pickle.dumps(a, proto))
        twins['pickle of a pickle'] = pickle.loads(pickle.dumps(twins['pickle round trip (protocol 2)']))
        for what, x in sorted(twins.items()):
            if fm.structure(x) != t:
                return Failure('provenance', inp, list(t), list(fm.structure(x)), '%s has another tree' % what)
            if not (x == a) or not (a == x) or (x != a) or (a != x):
                return Failure('provenance', inp, 'equal to the original', 'a == x: %s, x == a: %s, a != x: %s' % (a == x, x == a, a != x), what)
            if hash(x) != hash(a):
                return Failure('provenance', inp, 'equal hashes', '%d vs %d' % (hash(a), hash(x)), what)
            if len(set([a, x])) != 1 or {a: 1}.get(x) != 1 or x not in [a]:
                return Failure('provenance', inp, 'one key in sets and dicts', 'two keys / lookup misses', what)
            if b is not None and ((x == b) or (b == x) or not (x != b)):
                return Failure('provenance', inp, 'different from a formula with other atoms', 'reported equal', what)
        for w1, x in sorted(twins.items()):
            for w2, y in sorted(twins.items()):
                if not (x == y) or hash(x) != hash(y):
                    return Failure('provenance', inp, 'all copies equal to each other', '%s != %s' % (w1, w2))
        if fm.structure(a) != t:
            return Failure('provenance', inp, 'original unchanged', 'changed')
    except core.HarnessError:
        raise
    except Exception as e:
        return Failure('provenance', inp, 'no exception', 'raised %s: %s' % (type(e).__name__, str(e)[:200]))
    return None


CHECKS['provenance'] = check_provenance


def provenance_shard(st, shard, nshards, payload):
    i = -1
    for logic in LOGICS:
        for atoms in (('p', 'q'), ('alpha', 'x_1'), ('a', 'B')):
            forms = scope_formulas(logic, 2, atoms)[::payload['stride']] + deep_scope(logic, atoms, 211)
            for t in forms:
                i += 1
                if i % nshards != shard:
                    continue
                st.evaluations += 1
                st.nontrivial += 1
                st.bump('provenance: pickle / deepcopy / copy / clone / rebuilt')
                if i % 1999 == 0:
                    st.sample({'logic': logic, 'f': t}, cls='provenance-' + logic)
                r = check_provenance({'logic': logic, 'f': t, 'raw': bool(i % 2)})
                if r is not None:
                    if st.failure is None:
                        st.failure = r
                    return


def check_deep(inp):
    """Formulas nested k deep that differ only in the INNERMOST leaf (or in their length by one): ==, !=,
    hash, set membership and clone() must see the difference, and an independently built copy must be
    equal.  A RecursionError (the interpreter's limit) is not an answer: skipped."""
    from .c09 import deep_formula, to_lib_iter, flatten_obj, flatten_tuple
    logic, shape, k = inp['logic'], inp['shape'], inp['k']
    L = fm.lang(logic)
    ta = deep_formula(logic, shape, k)
    tb = deep_formula(logic, shape, k, leaf=('ap', 'r'))
    if shape.startswith('wide-'):
        # one wide node: the variation is an operand in the MIDDLE
        mid = len(ta) // 2
        tb = ta[:mid] + (ta[1],) + ta[mid + 1:]
    tc = deep_formula(logic, shape, k - 1)
    try:
        a, a2, b, c = to_lib_iter(ta, L), to_lib_iter(ta, L), to_lib_iter(tb, L), to_lib_iter(tc, L)
        if not (a == a2) or not (a2 == a) or (a != a2):
            return Failure('deep', inp, 'independently built copies are equal', 'a == a2 is False')
        if hash(a) != hash(a2):
            return Failure('deep', inp, 'equal hashes for equal formulas', '%d vs %d' % (hash(a), hash(a2)))
        for what, x in (('innermost leaf', b), ('one level less', c)):
            if (a == x) or (x == a) or not (a != x) or not (x != a):
                return Failure('deep', inp, 'formulas differing in the %s are unequal' % what,
                               'a == x: %s, x == a: %s, a != x: %s' % (a == x, x == a, a != x))
            if len(set([a, x])) != 2 or x in set([a]) or len({a: 1, x: 2}) != 2:
                return Failure('deep', inp, 'formulas differing in the %s are different keys' % what, 'they collide')
        cl = a.clone()
        if flatten_obj(cl) != flatten_tuple(ta):
            return Failure('deep', inp, 'clone has the same tree', 'another tree')
        if not (cl == a) or hash(cl) != hash(a) or (cl == b):
            return Failure('deep', inp, 'clone == original, != a deep variation', 'broken')
        if flatten_obj(a) != flatten_tuple(ta):
            return Failure('deep', inp, 'original unchanged', 'changed')
    except RecursionError:
        return 'recursion'
    except core.HarnessError:
        raise
    except Exception as e:
        return Failure('deep', inp, 'no exception', 'raised %s: %s' % (type(e).__name__, str(e)[:200]))
    return None


def deep_shard(st, shard, nshards, payload):
    from .c09 import SHAPES
    i = -1
    for logic in LOGICS:
        for shape in SHAPES:
            for k in payload['ks']:
                i += 1
                if i % nshards != shard:
                    continue
                inp = {'logic': logic, 'shape': shape, 'k': k}
                r = check_deep(inp)
                if r == 'recursion':
                    st.bump('nesting: beyond the recursion limit (skipped)')
                    continue
                st.evaluations += 1
                st.nontrivial += 1
                st.bump('nesting >= %d' % (50 * (k // 50)))
                if k == 40:
                    st.sample(inp, cls='nesting-' + shape)
                if r is not None:
                    if st.failure is None:
                        st.failure = r
                    return


def enum_shard(st, shard, nshards, payload):
    block = payload['block']
    bidx = -1
    for logic in LOGICS:
        L = fm.lang(logic)
        for atoms in payload['atomsets'][logic]:
            forms = scope_formulas(logic, payload['k'], atoms)
            objs = [fm.to_lib(t, L) for t in forms]
            texts = [fm.to_text(t) for t in forms]
            order = sorted(range(len(forms)), key=lambda i: (len(texts[i]), texts[i]))
            for b0 in range(0, len(order), block):
                bidx += 1
                if bidx % nshards != shard:
                    continue
                if b0 == 0:
                    # whole-scope key behaviour: all trees distinct -> all keys distinct; the scope
                    # is widened here by a stride of the formulas with exactly 3 operators
                    st.evaluations += 1
                    wide = list(forms) + deep_scope(logic, atoms, payload.get('deep_stride', 11))
                    wobjs = objs + [fm.to_lib(t, L) for t in wide[len(forms):]]
                    st.add_extra('formulas_in_key_scope', len(wide))
                    seen = {}
                    for i in range(len(wide)):
                        j = seen.setdefault(wobjs[i], i)
                        if j != i:
                            inp = {'logic': logic, 'f': wide[j], 'g': wide[i]}
                            st.failure = check_pair(inp) or Failure(
                                'pair', inp, 'distinct keys', 'collide in a dict')
                            return
                    for i in range(len(forms), len(wide), 3):
                        st.evaluations += 1
                        f = check_pair({'logic': logic, 'f': wide[i], 'g': wide[i], 'raw': True}) or \
                            check_clone({'logic': logic, 'f': wide[i]})
                        if f is not None:
                            st.failure = f
                            return
                idxs = order[b0:b0 + block]
                # the block plus a stride of the rest, so that far pairs are sampled too
                others = order[(bidx * 7) % 13::97]
                for i in idxs:
                    st.evaluations += 1
                    f = None
                    for g in arity_neighbours(forms[i])[:payload.get('neighbours', 2)]:
                        # same operator, the operands of one a positional prefix of the other's
                        st.evaluations += 1
                        st.nontrivial += 1
                        f = check_pair({'logic': logic, 'f': forms[i], 'g': g}) or \
                            check_pair({'logic': logic, 'f': g, 'g': forms[i], 'raw': True})
                        if f is not None:
                            break
                    if f is not None:
                        if st.failure is None:
                            st.failure = f
                        return
                    f = check_clone({'logic': logic, 'f': forms[i], 'raw': bool(i % 2)})
                    if f is None:
                        f = check_pair({'logic': logic, 'f': forms[i], 'g': forms[i], 'raw': bool(i % 2)})
                    if f is not None:
                        if st.failure is None:
                            st.failure = f
                        return
                    a = objs[i]
                    ha = hash(a)
                    for j in idxs + others:
                        if j == i:
                            continue
                        st.evaluations += 1
                        b = objs[j]
                        near = len(texts[i]) == len(texts[j])
                        if near:
                            st.nontrivial += 1
                        if (a == b) or (b == a) or not (a != b) or \
                                (ha == hash(b) and len(set([a, b])) != 2):
                            f = check_pair({'logic': logic, 'f': forms[i], 'g': forms[j]})
                            if f is None:
                                f = Failure('pair', {'logic': logic, 'f': forms[i], 'g': forms[j]},
                                            'different formulas unequal', 'equal on pre-built objects')
                            if st.failure is None:
                                st.failure = f
                            return
                    if i % 211 == 0:
                        j = idxs[(idxs.index(i) + 1) % len(idxs)]
                        st.sample({'logic': logic, 'f': forms[i], 'g': forms[j]}, cls='%s-%d' % (logic, len(texts[i]) // 8))
                # whole-block set/dict behaviour: all distinct trees -> all distinct keys
                s = set(objs[i] for i in idxs)
                d = dict((objs[i], i) for i in idxs)
                st.evaluations += 1
                if len(s) != len(idxs) or len(d) != len(idxs):
                    # find the colliding pair
                    seen = {}
                    for i in idxs:
                        if objs[i] in seen:
                            st.failure = check_pair({'logic': logic, 'f': forms[seen[objs[i]]], 'g': forms[i]}) or \
                                Failure('pair', {'logic': logic, 'f': forms[seen[objs[i]]], 'g': forms[i]},
                                        'distinct keys', 'collide in a set')
                            return
                        seen[objs[i]] = i


def run(ctx):
    from hypothesis import strategies as hs
    ctx.rule = ('per logic (PL, LTL, CTL*, CTL) the enumeration of every formula with <= 2 '
                'operators over atom pairs from the keyword-hugging identifier pool (reserved words '
                'of the logic excluded); formulas sorted by printed length and cut into blocks: all '
                'ordered pairs inside a block plus a stride of far pairs; every formula against an '
                'independently built copy (explicit vs raw str/bool leaves) and against its arity neighbours (one and/or '
                'node with an operand appended or dropped at the end); the whole scope plus a stride of the '
                'formulas with exactly 3 operators must give pairwise distinct dict keys.  Oracle: tree identity '
                '(harness tuples) vs ==, !=, hash, set and dict behaviour, symmetry, reflexivity; '
                'clone(): equal, same tree, no node object and no children list shared; Bool vs '
                'Python bool in both argument orders; random triples for transitivity; formulas whose repeated subformulas are ONE '
                'object (built once, used at several places), compared with formulas that differ in one of the occurrences.  '
                'Non-trivial pair = two different trees whose fully parenthesised texts have equal '
                'length (near collisions).')
    atomsets = {}
    for logic in LOGICS:
        av = atoms_for(logic)
        sets = [('p', 'q'), ('p', 'notp')]
        if logic != 'PL':
            sets.append(('p', 'Xp'))
        if ctx.thorough:
            sets.append((av[2], av[3]))
        if ctx.thorough:
            sets += [(av[i], av[i + 1]) for i in range(4, len(av) - 1, 5)]
        atomsets[logic] = sets
    ctx.scopes = ['formulas with <= 2 operators x %d atom pairs per logic; blocks of %d' % (
        len(atomsets['CTLS']), ctx.pick(64, 400))]
    ctx.exhaustive = True
    st = ctx.stats
    for logic in LOGICS:
        f = check_bool({'logic': logic})
        st.evaluations += 1
        if f is not None:
            ctx.violation(f)
            return
    f = core.run_sharded(ctx, enum_shard, {'k': 2, 'atomsets': atomsets, 'block': ctx.pick(64, 400),
                                           'deep_stride': ctx.pick(11, 2)})
    if f is not None:
        ctx.violation(f)
        return

    ks = ctx.pick([6, 17, 40, 90, 140], [4, 6, 9, 13, 17, 25, 40, 60, 90, 120, 140, 200, 280])
    ctx.scopes.append('nesting: 11 chain/fold/wide shapes per logic at nesting %s: a copy, a variation of the innermost leaf, one level less' % ks)
    f = core.run_sharded(ctx, deep_shard, {'ks': ks})
    if f is not None:
        ctx.violation(f)
        return

    ctx.scopes.append('provenance: every %sformula with <= 2 operators over 3 atom pairs per logic (+ a stride of 3 operators): pickle round trips (3 protocols), '
                      'deepcopy, copy, clone and a second construction against the original' % ('13th ' if not ctx.thorough else ''))
    f = core.run_sharded(ctx, provenance_shard, {'stride': ctx.pick(13, 1)})
    if f is not None:
        ctx.violation(f)
        return

    rks = ctx.pick([4, 5], [3, 4, 5, 6])
    ctx.scopes.append('regrouped operands: the same %s leaves in the same order under the same two operators (and/or, -->, U, R over and/or groups), '
                      'cut into groups in every possible way, bare and under unary wrappers: all pairs' % rks)
    f = core.run_sharded(ctx, regroup_shard, {'ks': rks})
    if f is not None:
        ctx.violation(f)
        return

    stride = ctx.pick(7, 1)
    ctx.scopes.append('shared subformula objects: every %s(context of <= 2 operators with a slot occurring at least twice, '
                      'one-operator formula for the slot) per logic; f with the slot filled alike, g differing in ONE occurrence; built '
                      'with the occurrences as one object in f, in g, in both, or from one pool for both' % ('7th ' if stride > 1 else ''))
    f = core.run_sharded(ctx, shared_shard, {'stride': stride})
    if f is not None:
        ctx.violation(f)
        return

    f = core.run_random(ctx, random_shard, 4000, 40000)
    if f is not None:
        ctx.violation(f)


def random_shard(st, shard, nshards, payload):
    from hypothesis import strategies as hs
    kinds = {'PL': 'pl', 'LTL': 'ltl_path', 'CTLS': 'ctls_path', 'CTL': 'ctl'}

    @hs.composite
    def triples(draw):
        logic = draw(hs.sampled_from(LOGICS))
        av = atoms_for(logic)
        atoms = tuple(draw(hs.lists(hs.sampled_from(av), min_size=1, max_size=2, unique=True)))
        s = fm.st_formula(kinds[logic], atoms, max_depth=2, max_temporal=4)
        a = draw(s)
        # b, c: equal to a, or a one-node variation, or independent
        def variant():
            how = draw(hs.sampled_from(['same', 'same', 'other', 'swap', 'arity', 'arity']))
            if how == 'same':
                return a
            if how == 'arity':
                nb = arity_neighbours(a)
                if nb:
                    return nb[draw(hs.integers(0, len(nb) - 1))]
            if how == 'swap' and len(a) == 3:
                return (a[0], a[2], a[1])
            return draw(s)
        return {'logic': logic, 'a': a, 'b': variant(), 'c': variant()}

    def body(inp):
        logic = inp['logic']
        L = fm.lang(logic)
        ta, tb, tc = [fm.from_json(inp[k]) for k in 'abc']
        nt = (ta == tb) or (tb == tc)
        st.random_case(inp, nt)
        for (x, y) in ((ta, tb), (tb, tc), (ta, tc)):
            f = check_pair({'logic': logic, 'f': x, 'g': y})
            if f is not None:
                return f
        a, b, c = [fm.to_lib(t, L) for t in (ta, tb, tc)]
        if (a == b) and (b == c) and not (a == c):
            return Failure('pair', {'logic': logic, 'f': ta, 'g': tc}, 'transitive', 'a==b, b==c, a!=c')
        st.bump('random triples')
        return check_clone({'logic': logic, 'f': ta})

    f = core.hyp_run(payload['seed'] * 1000 + shard, triples(), body, payload['n'])
    if f is not None:
        st.failure = f
