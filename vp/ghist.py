"""Edit/query HISTORIES on one DiGraph object (shared by C12 and C13).

A graph a caller holds is rarely built in one constructor call: nodes and edges are added with
add_node/add_edge, and questions (components, reachability, reversal, subgraphs, clones) are
asked in between.  Every answer must be exact for the graph AS IT IS at that moment, whatever
was asked or added before.  A history is a JSON-able list of operations on harness nodes
0..n-1; the harness keeps its own model (node list, edge set) and compares every answer with
the Warshall oracle of vp/graphs.py on that model.

  ['node', i]            add_node (i not yet a node)
  ['edge', i, j]         add_edge (not yet an edge; absent end points become nodes)
  ['scc']                compute_SCCs, consumed completely
  ['scc_partial', k]     compute_SCCs, only the first k components consumed, generator dropped
  ['scc_of', kind, xs]   compute_SCCs of a derived graph: 'reverse' | 'clone' | 'subgraph' (of xs)
  ['reach', xs]          get_reachable_set_from(xs)
  ['reach_next', v]      get_reachable_set_from(G.next(v)): X is a set the graph itself handed out
  ['scc_nested']         two decompositions alive at once: for c1 in compute_SCCs(G): for c2 in compute_SCCs(G)
  ['reverse']            get_reversed_graph()
  ['subgraph', xs]       get_subgraph(xs)
  ['clone']              clone(): equal now
  ['fork']               continue on a clone; the original must stay as it was
  ['fork_sub', xs]       continue on get_subgraph(xs); the original must stay as it was
  ['fork_rev']           continue on get_reversed_graph(); the original must stay as it was
  ['back']               put the current graph aside (it must stay as it is) and continue on the graph
                         that was put aside first

With inp['tamper'] the caller also USES what it got: every returned component list and reachable
set is modified (an element appended / added, then emptied) before the next step.  Those are the
caller's own objects; later answers must not depend on what became of them.
"""
from . import graphs as G


class Model(object):
    def __init__(self):
        self.nodes = []
        self.edges = set()

    def add_node(self, i):
        if i not in self.nodes:
            self.nodes.append(i)

    def copy(self):
        m = Model()
        m.nodes = list(self.nodes)
        m.edges = set(self.edges)
        return m

    def partition(self, nodes=None, edges=None):
        nodes = self.nodes if nodes is None else nodes
        edges = self.edges if edges is None else edges
        if not nodes:
            return set()
        n = max(nodes) + 1
        present = set(nodes)
        return set(c for c in G.scc_partition(n, sorted(edges)) if c <= present)

    def reach(self, xs):
        if not self.nodes:
            return set()
        n = max(self.nodes) + 1
        return G.reachable_from(n, sorted(self.edges), [x for x in xs if x in self.nodes])


def valid_ops(ops):
    """Is the history applicable (no duplicate node / edge additions)?"""
    m = Model()
    kept = []
    for op in ops:
        if op[0] == 'fork':
            kept.append(m.copy())
        elif op[0] == 'fork_sub':
            kept.append(m)
            xs = [x for x in op[1] if x in m.nodes]
            sm = Model()
            sm.nodes = list(xs)
            sm.edges = set((a, b) for (a, b) in m.edges if a in xs and b in xs)
            m = sm
        elif op[0] == 'fork_rev':
            kept.append(m)
            rm = Model()
            rm.nodes = list(m.nodes)
            rm.edges = set((b, a) for (a, b) in m.edges)
            m = rm
        elif op[0] == 'back':
            if kept:
                kept.append(m)
                m = kept.pop(0)
        if op[0] == 'node':
            if op[1] in m.nodes:
                return False
            m.add_node(op[1])
        elif op[0] == 'edge':
            if (op[1], op[2]) in m.edges:
                return False
            m.add_node(op[1])
            m.add_node(op[2])
            m.edges.add((op[1], op[2]))
    return True


def _txt(parts):
    return sorted(sorted(map(repr, c)) for c in parts)


def _graph_problem(g, m, nm, what):
    nodes = list(g.nodes())
    if len(nodes) != len(set(nodes)) or set(nodes) != set(nm(i) for i in m.nodes):
        return ('%s: nodes' % what, sorted(map(repr, (nm(i) for i in m.nodes))), sorted(map(repr, nodes)))
    edges = list(g.edges())
    want = set((nm(a), nm(b)) for (a, b) in m.edges)
    if len(edges) != len(set(edges)) or set(edges) != want:
        return ('%s: edges' % what, sorted(map(repr, want)), sorted(map(repr, edges)))
    for i in m.nodes:
        nx = set(g.next(nm(i)))
        if nx != set(nm(b) for (a, b) in m.edges if a == i):
            return ('%s: next(%r)' % (what, nm(i)), sorted(repr(nm(b)) for (a, b) in m.edges if a == i),
                    sorted(map(repr, nx)))
    return None


def _scc_problem(comps, m, nm, nodes=None, edges=None):
    expected = set(frozenset(nm(i) for i in c) for c in m.partition(nodes, edges))
    comps = [list(c) for c in comps]
    flat = [v for c in comps for v in c]
    got = set(frozenset(c) for c in comps)
    if len(flat) != len(set(flat)) or len(got) != len(comps):
        return ('a node occurs in more than one component', _txt(expected), _txt(comps))
    if got != expected:
        return ('components differ from mutual reachability', _txt(expected), _txt(comps))
    return None


OPS = ('node', 'edge', 'scc', 'scc_partial', 'scc_of', 'reach', 'reach_next', 'scc_nested', 'reverse', 'subgraph', 'clone', 'fork',
       'fork_sub', 'fork_rev', 'back')


def run(inp):
    """Apply the history; None, or (step index, what, expected, got) for the first wrong answer.
    An exception raised by a legal operation is a wrong answer too."""
    from pyModelChecking.graph import DiGraph, compute_SCCs
    nm = G.NAMINGS[inp.get('naming', 'int')]
    g = DiGraph()
    m = Model()
    tamper = bool(inp.get('tamper'))
    kept = []            # (graph object, its model) that must stay as they are: forked originals
    for op in inp['ops']:
        if op[0] not in OPS:
            from .core import HarnessError
            raise HarnessError('unknown operation %r' % (op,))
    for k, op in enumerate(inp['ops']):
        o = op[0]
        try:
            if o == 'node':
                g.add_node(nm(op[1]))
                m.add_node(op[1])
            elif o == 'edge':
                g.add_edge(nm(op[1]), nm(op[2]))
                m.add_node(op[1])
                m.add_node(op[2])
                m.edges.add((op[1], op[2]))
            elif o == 'scc':
                comps = list(compute_SCCs(g))
                p = _scc_problem(comps, m, nm)
                if p:
                    return (k,) + p
                if tamper:
                    for c in comps:
                        if isinstance(c, list):
                            c.append('junk')
                            del c[:]
                        elif isinstance(c, set):
                            c.add('junk')
                            c.clear()
                    del comps[:]
            elif o == 'scc_partial':
                it = compute_SCCs(g)
                got = []
                for _ in range(op[1]):
                    try:
                        got.append(list(next(it)))
                    except StopIteration:
                        break
                del it
                expected = set(frozenset(nm(i) for i in c) for c in m.partition())
                for c in got:
                    if frozenset(c) not in expected:
                        return (k, 'a yielded component is not a component', _txt(expected), _txt(got))
            elif o == 'scc_of':
                if op[1] == 'reverse':
                    p = _scc_problem(compute_SCCs(g.get_reversed_graph()), m, nm)
                elif op[1] == 'clone':
                    p = _scc_problem(compute_SCCs(g.clone()), m, nm)
                else:
                    xs = [x for x in op[2] if x in m.nodes]
                    sub_edges = set((a, b) for (a, b) in m.edges if a in xs and b in xs)
                    p = _scc_problem(compute_SCCs(g.get_subgraph([nm(x) for x in op[2] if x in m.nodes])),
                                     m, nm, xs, sub_edges)
                if p:
                    return (k, 'components of the %s: %s' % (op[1], p[0])) + p[1:]
            elif o == 'reach':
                xs = [x for x in op[1] if x in m.nodes]
                got = g.get_reachable_set_from([nm(x) for x in xs])
                want = set(nm(i) for i in m.reach(xs))
                if set(got) != want or len(list(got)) != len(set(got)):
                    return (k, 'get_reachable_set_from(%r)' % ([nm(x) for x in xs],),
                            sorted(map(repr, want)), sorted(map(repr, got)))
                if tamper and isinstance(got, set):
                    got.add('junk')
                    got.clear()
            elif o == 'reach_next':
                if op[1] in m.nodes:
                    X = g.next(nm(op[1]))
                    got = g.get_reachable_set_from(X)
                    want = set(nm(i) for i in m.reach([b for (a, b) in m.edges if a == op[1]]))
                    if set(got) != want:
                        return (k, 'get_reachable_set_from(G.next(%r))' % (nm(op[1]),), sorted(map(repr, want)), sorted(map(repr, got)))
                    if tamper and isinstance(got, set):
                        # the result is the caller's: whatever it does with it, the graph stays what it was
                        got.add('junk')
                        got.discard(nm(op[1]))
                        got.clear()
            elif o == 'scc_nested':
                outer = []
                for c1 in compute_SCCs(g):
                    outer.append(list(c1))
                    p = _scc_problem(compute_SCCs(g), m, nm)
                    if p:
                        return (k, 'a decomposition started while another one is being read: ' + p[0]) + p[1:]
                    if len(outer) >= 3:
                        pass
                p = _scc_problem(outer, m, nm)
                if p:
                    return (k, 'a decomposition read while others were started and finished: ' + p[0]) + p[1:]
            elif o == 'reverse':
                r = g.get_reversed_graph()
                rm = Model()
                rm.nodes = list(m.nodes)
                rm.edges = set((b, a) for (a, b) in m.edges)
                p = _graph_problem(r, rm, nm, 'get_reversed_graph()')
                if p:
                    return (k,) + p
            elif o == 'subgraph':
                xs = [x for x in op[1] if x in m.nodes]
                s = g.get_subgraph([nm(x) for x in xs])
                sm = Model()
                sm.nodes = list(xs)
                sm.edges = set((a, b) for (a, b) in m.edges if a in xs and b in xs)
                p = _graph_problem(s, sm, nm, 'get_subgraph(%r)' % ([nm(x) for x in xs],))
                if p:
                    return (k,) + p
            elif o == 'clone':
                p = _graph_problem(g.clone(), m, nm, 'clone()')
                if p:
                    return (k,) + p
            elif o == 'fork':
                c = g.clone()
                kept.append((g, m.copy()))
                g = c
            elif o == 'fork_sub':
                xs = [x for x in op[1] if x in m.nodes]
                c = g.get_subgraph([nm(x) for x in xs])
                kept.append((g, m))
                sm = Model()
                sm.nodes = list(xs)
                sm.edges = set((a, b) for (a, b) in m.edges if a in xs and b in xs)
                g, m = c, sm
            elif o == 'fork_rev':
                c = g.get_reversed_graph()
                kept.append((g, m))
                rm = Model()
                rm.nodes = list(m.nodes)
                rm.edges = set((b, a) for (a, b) in m.edges)
                g, m = c, rm
            elif o == 'back':
                if kept:
                    kept.append((g, m))
                    g, m = kept.pop(0)
        except Exception as e:
            return (k, 'operation %r' % (op,), 'no exception', 'raised %s: %s' % (type(e).__name__, e))
        # the object itself after every step: edits add exactly what was asked, queries nothing
        p = _graph_problem(g, m, nm, 'the graph after step %d %r' % (k, op))
        if p:
            return (k,) + p
        for (g0, m0) in kept:
            p = _graph_problem(g0, m0, nm, 'the forked original after step %d %r' % (k, op))
            if p:
                return (k,) + p
    return None


# ---------------------------------------------------------------------------------------
# systematic histories: the construction sequence of a digraph with queries interleaved

def construction(n, mask, order):
    """The edit operations that build the digraph (n, adjacency mask) in one of four orders."""
    edges = G.edges_of_mask(n, mask)
    if order == 0:          # nodes first, then edges
        return [['node', i] for i in range(n)] + [['edge', a, b] for (a, b) in edges]
    if order == 1:          # edges first (nodes implied), isolated nodes LAST
        touched = set(x for e in edges for x in e)
        return [['edge', a, b] for (a, b) in reversed(edges)] + [['node', i] for i in range(n) if i not in touched]
    if order == 2:          # node by node, each with the edges to/from the nodes present
        ops = []
        for i in range(n):
            ops.append(['node', i])
            ops += [['edge', a, b] for (a, b) in edges if max(a, b) == i]
        return ops
    # reversed node order, edges sorted by target
    return [['node', i] for i in reversed(range(n))] + [['edge', a, b] for (a, b) in sorted(edges, key=lambda e: (e[1], e[0]))]


def interleave(edits, query_for, mode, k=0):
    """mode 'every': a query after every edit (and one before the first); 'at': one query after
    the k-th edit and one at the end; 'twice': two queries at the end."""
    ops = []
    if mode == 'every':
        ops += query_for(0)
        for i, e in enumerate(edits):
            ops.append(e)
            ops += query_for(i + 1)
    elif mode == 'at':
        for i, e in enumerate(edits):
            if i == k:
                ops += query_for(i)
            ops.append(e)
        if k >= len(edits):
            ops += query_for(k)
        ops += query_for(len(edits) + 1)
    else:
        ops += list(edits) + query_for(0) + query_for(1)
    return ops


def st_history(queries, max_nodes=7, max_ops=40):
    """Hypothesis strategy: a random applicable history over the given query kinds."""
    from hypothesis import strategies as hs

    @hs.composite
    def hist(draw):
        n = draw(hs.integers(1, max_nodes))
        nops = draw(hs.integers(1, max_ops))
        m = Model()
        kept = []
        ops = []
        subs = hs.lists(hs.integers(0, n - 1), max_size=n, unique=True)
        for _ in range(nops):
            kind = draw(hs.sampled_from(['edge', 'edge', 'edge', 'node', 'query', 'query']))
            if kind == 'node':
                free = [i for i in range(n) if i not in m.nodes]
                if not free:
                    kind = 'edge'
                else:
                    i = free[draw(hs.integers(0, len(free) - 1))]
                    m.add_node(i)
                    ops.append(['node', i])
                    continue
            if kind == 'edge':
                a, b = draw(hs.integers(0, n - 1)), draw(hs.integers(0, n - 1))
                if (a, b) in m.edges:
                    kind = 'query'
                else:
                    m.add_node(a)
                    m.add_node(b)
                    m.edges.add((a, b))
                    ops.append(['edge', a, b])
                    continue
            q = draw(hs.sampled_from(queries))
            if q == 'scc_partial':
                ops.append([q, draw(hs.integers(0, 3))])
            elif q == 'scc_of':
                kd = draw(hs.sampled_from(['reverse', 'clone', 'subgraph']))
                ops.append([q, kd, draw(subs) if kd == 'subgraph' else []])
            elif q in ('reach', 'subgraph'):
                ops.append([q, draw(subs)])
            elif q == 'reach_next':
                ops.append([q, draw(hs.integers(0, n - 1))])
            elif q == 'fork':
                kd = draw(hs.sampled_from(['fork', 'fork_sub', 'fork_rev', 'back', 'back']))
                if kd == 'fork':
                    kept.append(m.copy())
                    ops.append(['fork'])
                elif kd == 'fork_sub':
                    xs = [x for x in draw(subs) if x in m.nodes]
                    kept.append(m)
                    sm = Model()
                    sm.nodes = list(xs)
                    sm.edges = set((a, b) for (a, b) in m.edges if a in xs and b in xs)
                    m = sm
                    ops.append(['fork_sub', xs])
                elif kd == 'fork_rev':
                    kept.append(m)
                    rm = Model()
                    rm.nodes = list(m.nodes)
                    rm.edges = set((b, a) for (a, b) in m.edges)
                    m = rm
                    ops.append(['fork_rev'])
                elif kept:
                    kept.append(m)
                    m = kept.pop(0)
                    ops.append(['back'])
            else:
                ops.append([q])
        ops.append([draw(hs.sampled_from([q for q in queries if q in ('scc', 'reverse', 'clone')] or ['scc']))])
        return {'naming': draw(hs.sampled_from(['int', 'str', 'tuple', 'mixed', 'opaque'])), 'ops': ops,
                'tamper': draw(hs.booleans())}

    return hist()
