"""Harness-side digraph model shared by C12/C13/C14: enumeration, presentations, oracles."""
import itertools


def edges_of_mask(n, mask):
    """Edge list of the digraph on 0..n-1 whose adjacency matrix is the bit mask."""
    return [(i, j) for i in range(n) for j in range(n) if (mask >> (i * n + j)) & 1]


def closure(n, edges):
    """Reflexive-transitive closure as a list of bit rows (Warshall)."""
    reach = [1 << i for i in range(n)]
    for (i, j) in edges:
        reach[i] |= 1 << j
    for k in range(n):
        for i in range(n):
            if (reach[i] >> k) & 1:
                reach[i] |= reach[k]
    return reach


def scc_partition(n, edges):
    """Set of frozensets: the strongly connected components by definition."""
    reach = closure(n, edges)
    comps = set()
    for i in range(n):
        comps.add(frozenset(j for j in range(n)
                            if (reach[i] >> j) & 1 and (reach[j] >> i) & 1))
    return comps


def reachable_from(n, edges, xs):
    reach = closure(n, edges)
    out = set()
    for x in xs:
        out |= set(j for j in range(n) if (reach[x] >> j) & 1)
    return out


# ---------------------------------------------------------------------------------------
# node naming: the same abstract graph under different Python node types

class Opaque(object):
    """A state that is equal only to itself (identity hash/eq), like an application object."""

    def __init__(self, tag):
        self.tag = tag

    def __repr__(self):
        return 'Opaque(%r)' % (self.tag,)


_OPAQUE = [Opaque(0), Opaque('one'), object(), (Opaque(3), 3), Opaque(None), (4, Opaque('four')),
           Opaque(6), Opaque(7), object(), Opaque(9), Opaque(10), Opaque(11)] + [Opaque(i) for i in range(12, 40)]

_NUMEQ = itertools.count()


def _numeq(i):
    """Numbers that are EQUAL but of different types from one mention to the next: 1, 1.0, True are the
    same dictionary key; a structure built from a list that says 1 and a relation that says 1.0 has one
    state."""
    k = next(_NUMEQ) % 3
    if k == 1:
        return float(i)
    if k == 2 and i in (0, 1):
        return bool(i)
    return i


NAMINGS = {
    'numeq': _numeq,
    # GRAPH nodes only (never Kripke states: labels(None) means the whole structure): None is a node like
    # any other; a node may be a tuple / frozenset of other nodes (product and subset constructions)
    'nonefirst': lambda i: None if i == 0 else ('n%d' % i if i % 2 else i),
    'nested': lambda i: [0, 1, (0, 1), 2, frozenset([0, 1]), (0, 1, 2), (1, 0), 3, (2, 3), frozenset([2]), 4, (4,)][i] if i < 12 else ('m', i),
    # frozensets that are pairwise INCOMPARABLE: hashable, '<' never raises but is only a partial order
    # (subset), so sorting them silently yields no order at all
    'fsets': lambda i: frozenset([i, 'k%d' % (i % 3)]),
    # small ints of both signs: -1, 1, -2, 2, ... (a negative int is a legal LIST INDEX: code that uses
    # an int state as a position does not fail on it, it silently reads another slot)
    'zigzag': lambda i: (-(i // 2) - 1) if i % 2 == 0 else (i // 2 + 1),
    'int': lambda i: i,
    'str': lambda i: 's%d' % i,
    'revint': lambda i: 100 - i,
    'tuple': lambda i: (i % 2, i),
    'mixed': lambda i: [0, 'one', (2,), 3.5, frozenset([4]), -5, 'six', (7, 7),
                        8, 'nine', (1, 0), 11.25][i % 12] if i < 12 else ('n', i),
    # states with identity semantics: a copy of one is NOT that state
    'opaque': lambda i: _OPAQUE[i],
    # string names whose lexicographic and numeric orders differ, of different lengths
    'strlen': lambda i: ['s2', 's10', 's1', 's100', 'a', 'b10', 's02', 'S2', 's', 's1_', 'z', 's11'][i % 12]
    if i < 12 else 's%d' % (i * 7),
    # distinct states whose printed forms collide (0 / '0', (1,) / '(1,)')
    'strcollide': lambda i: [0, '0', (1,), '(1,)', 1, '1', 2, '2', (0,), '(0,)', 3, '3'][i % 12]
    if i < 12 else ('n', i),
}


def present(n, edges, how, naming='int'):
    """Arguments (V, E) for DiGraph(V, E) under presentation `how` (0..5)."""
    nm = NAMINGS[naming]
    nodes = list(range(n))
    es = list(edges)
    if how == 0:
        pass
    elif how == 1:
        nodes.reverse()
        es.reverse()
    elif how == 2:
        nodes = nodes[1:] + nodes[:1]
        es = sorted(es, key=lambda e: (e[1], e[0]))
    elif how == 3:
        # nodes only implied by the edges, isolated ones through V
        touched = set(x for e in es for x in e)
        nodes = [v for v in nodes if v not in touched]
        es = es[len(es) // 2:] + es[:len(es) // 2]
    elif how == 4:
        # a container may mention a node more than once
        nodes = nodes[::2] + nodes[1::2] + nodes[:2]
        es = sorted(es, key=lambda e: (-e[0], e[1]))
    elif how == 5:
        # ... and an edge more than once
        nodes = list(reversed(nodes[::2])) + nodes[1::2]
        es = sorted(es, key=lambda e: ((e[0] * 7 + e[1] * 3) % 5, e))
        es = es + es[::3]
    V = [nm(v) for v in nodes]
    E = [(nm(a), nm(b)) for (a, b) in es]
    return V, E


def snapshot_graph(G):
    """Nodes and edges of a library DiGraph, read through its public API."""
    return (frozenset(G.nodes()), frozenset(G.edges()))


def all_subsets(items):
    items = list(items)
    for r in range(len(items) + 1):
        for c in itertools.combinations(items, r):
            yield c
