"""A process WITHOUT history: answers modelcheck requests, each in a freshly forked child.

The server imports the library but never calls it; every request is served by a child forked
from that pristine state, so its answer cannot depend on earlier calls.  C07 compares the answer
a long-lived process gives after an arbitrary call history with the answer of this server
("the result depends only on the arguments") - without any reference semantics.

Protocol: one JSON object per line on stdin -> one JSON list per line on stdout.
"""
import json
import os
import sys


def serve_one(req):
    from vp import core, fm, km
    from vp import graphs
    K = req['K']
    naming = req['naming']
    nm = graphs.NAMINGS[naming]
    back = dict((nm(i), i) for i in range(K['n']))
    kripke = km.to_lib(K, naming, req['how'])
    if req.get('clone'):
        kripke = kripke.clone()
    t = fm.from_json(req['f'])
    obj = fm.to_lib(t, fm.lang(req['objlang']))
    arg = obj
    if req['as_text']:
        arg = str(obj) if req['objlang'] != 'CTL' else str(obj.cast_to(fm.lang('CTLS')))
    kw = {}
    if req.get('parser_from'):
        # the caller's own parser: the grammar of one logic producing objects of the checker's logic
        kw['parser'] = fm.lang(req['parser_from']).Parser(language=fm.lang(req['checker']))
    if req.get('F') is not None:
        kw['F'] = [set(nm(s % K['n']) for s in P) for P in req['F']]
    try:
        with core.quiet():
            res = fm.lang(req['checker']).modelcheck(kripke, arg, **kw)
        if isinstance(res, (set, frozenset)):
            try:
                return ['set', sorted(back[s] for s in res)]
            except (KeyError, TypeError):
                return ['other', 'foreign element']
        return ['other', repr(type(res))]
    except Exception as e:
        return ['exc', type(e).__name__]


def main():
    from vp import core
    core.bootstrap()
    from vp import fm, km  # noqa: F401
    for name in ('PL', 'CTL', 'LTL', 'CTLS'):
        fm.lang(name)
    out = sys.stdout
    for line in sys.stdin:
        line = line.strip()
        if not line:
            continue
        req = json.loads(line)
        r, w = os.pipe()
        pid = os.fork()
        if pid == 0:
            os.close(r)
            try:
                ans = serve_one(req)
            except BaseException as e:          # harness-side failure inside the child
                ans = ['harness', type(e).__name__, str(e)[:200]]
            with os.fdopen(w, 'w') as fh:
                fh.write(json.dumps(ans))
            os._exit(0)
        os.close(w)
        with os.fdopen(r) as fh:
            data = fh.read()
        os.waitpid(pid, 0)
        out.write((data or '["harness", "no answer"]') + '\n')
        out.flush()


if __name__ == '__main__':
    main()
