"""Sub-interpreter of C06: evaluate a corpus of (K, f, checker) cases under the PYTHONHASHSEED
this process was started with and print one canonical result list (JSON) on stdout."""
import json
import sys


def main():
    from vp import core
    core.bootstrap()
    from vp import fm, mc
    with open(sys.argv[1]) as fh:
        corpus = json.load(fh)
    out = []
    for case in corpus:
        f = fm.from_json(case['f'])
        try:
            o = mc.call(case['checker'], case['K'], f, case.get('naming', 'str'), case.get('how', 0),
                        form=case.get('form', 'obj'))
        except Exception as e:           # harness-side problem: report, the parent decides
            o = ('harness', type(e).__name__, str(e)[:100])
        out.append(list(o))
    sys.stdout.write('C06-RESULTS ' + json.dumps(out) + '\n')


if __name__ == '__main__':
    main()
