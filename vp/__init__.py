"""Property-based verification harness for pyModelChecking (see /verif/DESIGN.md)."""
