"""Calling the model checkers under test and normalising what comes back."""
from . import core, fm, km
from . import graphs


def call(logic, K, f, naming='int', how=0, containers='list', form='obj', F=None,
         kripke=None, objlang=None, raw_leaves=False, fshape='list-set', atoms=None):
    """Run <logic>.modelcheck on the harness model K and the tuple formula f.

    form: 'obj' (object of `objlang`, default the checker's own language), 'shared' (the same, equal
    subformulas built once and reused as one object), 'text' (independent fully parenthesised
    printer) or 'str' (the library's own str of the object).
    F: None or a list of lists of harness states.
    Returns ('set', mask) | ('exc', class name, message) | ('bad', description).
    """
    L = fm.lang(logic)
    amap = atoms if isinstance(atoms, dict) else (fm.atom_map(atoms) if atoms is not None else None)
    if amap:
        # the library sees the same structure and formula with the atoms spelled differently
        K = km.rename_labels(K, amap)
        f = fm.rename_atoms(f, amap)
    nm = graphs.NAMINGS[naming]
    back = dict((nm(i), i) for i in range(K['n']))
    if kripke is None:
        try:
            kripke = km.to_lib(K, naming, how, containers)
        except core.Refused:
            raise
        except Exception as e:
            # the harness only hands total structures in documented container types to the constructor
            return ('bad', 'the Kripke constructor refused a total structure: %s: %s' % (type(e).__name__, str(e)[:160]))
    try:
        if form == 'text':
            arg = fm.to_text(f)
        else:
            # 'shared': equal subformulas are ONE object, used at several places of the formula
            # 'raw': atoms and constants handed to the parent constructors as bare str / bool (the documented
            # shortcut: U('p', 'q'), Or(True, 'p')) instead of AtomicProposition / Bool objects
            arg = fm.to_lib(f, fm.lang(objlang or logic), raw_leaves or form == 'raw', share={} if form == 'shared' else None)
            if form == 'str':
                arg = str(arg)
    except Exception as e:
        raise core.HarnessError('cannot build the input for %s: %r (%s: %s)' % (
            logic, f, type(e).__name__, e))
    kw = {}
    if F is not None:
        kw['F'] = make_F(F, nm, fshape)
        f_before = [set(P) for P in kw['F']]
    try:
        with core.quiet():
            if F is not None and fshape in ('tuple-set', 'list-frozenset', 'list-set-dup'):
                # the optional arguments POSITIONALLY, in the documented order (kripke, formula, parser, F)
                res = L.modelcheck(kripke, arg, None, kw['F'])
            else:
                res = L.modelcheck(kripke, arg, **kw)
    except Exception as e:
        if F is not None and [set(P) for P in kw['F']] != f_before:
            return ('bad', 'the caller\'s F was modified: %r -> %r' % (f_before, kw['F']))
        return ('exc', type(e).__name__, str(e)[:200])
    if F is not None:
        if [set(P) for P in kw['F']] != f_before:
            return ('bad', 'the caller\'s F was modified: %r -> %r' % (f_before, kw['F']))
    return normalise(res, back)


def make_F(F, nm, fshape='list-set'):
    """The fairness constraints as a caller could pass them: a list or tuple of sets or
    frozensets of states."""
    sets = [set(nm(i) for i in P) for P in F]
    if fshape == 'list-frozenset':
        return [frozenset(P) for P in sets]
    if fshape == 'tuple-set':
        return tuple(sets)
    if fshape == 'tuple-frozenset':
        return tuple(frozenset(P) for P in sets)
    if fshape == 'list-set-out':
        # elements that are not states of K are legal members of a fairness set (never visited)
        return [set(P) | set(['not-a-state', ('out', 1)]) for P in sets]
    if fshape == 'list-set-many-out':
        # ... as many of them as to make every P larger than the whole state set (an F written for a
        # bigger model and reused on a substructure)
        return [set(P) | set(('elsewhere', k) for k in range(9)) for P in sets]
    if fshape == 'frozenset-frozenset':
        return frozenset(frozenset(P) for P in sets)
    if fshape == 'set-frozenset':
        return set(frozenset(P) for P in sets)
    if fshape == 'dict-values':
        return dict((i, P) for i, P in enumerate(sets)).values()
    if fshape == 'list-set-dup':
        return sets + [set(P) for P in sets[:1]]
    return sets


def normalise(res, back):
    if not isinstance(res, (set, frozenset)):
        return ('bad', 'returned %s, not a set' % type(res).__name__)
    m = 0
    for s in res:
        try:
            i = back[s]
        except (KeyError, TypeError):
            return ('bad', 'result contains %r, not a state' % (s,))
        m |= 1 << i
    return ('set', m)


def show(outcome):
    if outcome[0] == 'set':
        from .ref import mask_to_list
        return {'states': mask_to_list(outcome[1])}
    return {'outcome': list(outcome)}


def show_mask(m):
    from .ref import mask_to_list
    return {'states': mask_to_list(m)}
