"""Harness-side Boolean expression model for the OBDD properties (C16-C18).

Expressions are tuples: ('v', name) ('c', 0|1) ('not', e) ('and', e1, .., en) ('or', e1, .., en).
A truth table over variables VARS (fixed alphabetical reference order, independent of any
OBDD ordering) is an int: bit k is the value under the assignment whose bits are k.
"""
import itertools

VARS4 = ('a', 'b', 'c', 'd')


def from_json(x):
    if isinstance(x, (list, tuple)):
        return tuple(from_json(c) if isinstance(c, (list, tuple)) else c for c in x)
    return x


def tt_var(i, nvars):
    t = 0
    for k in range(1 << nvars):
        if (k >> i) & 1:
            t |= 1 << k
    return t


def tt_full(nvars):
    return (1 << (1 << nvars)) - 1


def eval_tt(e, variables):
    """Truth table of the expression over `variables` (tuple of names)."""
    n = len(variables)
    full = tt_full(n)
    o = e[0]
    if o == 'v':
        return tt_var(variables.index(e[1]), n)
    if o == 'c':
        return full if e[1] else 0
    if o == 'not':
        return full & ~eval_tt(e[1], variables)
    if o == 'and':
        r = full
        for c in e[1:]:
            r &= eval_tt(c, variables)
        return r
    if o == 'or':
        r = 0
        for c in e[1:]:
            r |= eval_tt(c, variables)
        return r
    raise ValueError(e)


def eval_python(text, variables):
    """Truth table of a Python Boolean expression text, by Python's own eval (independent)."""
    n = len(variables)
    code = compile(text, '<expr>', 'eval')
    t = 0
    for k in range(1 << n):
        env = dict((v, bool((k >> i) & 1)) for i, v in enumerate(variables))
        val = eval(code, {'__builtins__': {}}, env)
        # ~True is -2 in Python: the symbolic style is evaluated by eval_tt instead
        if val:
            t |= 1 << k
    return t


def variables_of(e, acc=None):
    acc = set() if acc is None else acc
    if e[0] == 'v':
        acc.add(e[1])
    elif e[0] != 'c':
        for c in e[1:]:
            variables_of(c, acc)
    return acc


def depth(e):
    return 0 if e[0] in ('v', 'c') else 1 + max(depth(c) for c in e[1:])


CONST_STYLES = {'sym': {0: '0', 1: '1'}, 'word': {0: 'False', 1: 'True'}}


def to_str(e, style='sym', consts='sym'):
    """Text in the OBDD expression syntax.  style 'sym': & | ~ ; 'word': and or not;
    'mixed': symbols at even depth, words at odd depth (still valid Python)."""
    def rec(e, d):
        st = style if style != 'mixed' else ('sym' if d % 2 == 0 else 'word')
        o = e[0]
        if o == 'v':
            return e[1]
        if o == 'c':
            return CONST_STYLES[consts][e[1]]
        if o == 'not':
            return ('~(%s)' if st == 'sym' else 'not (%s)') % rec(e[1], d + 1)
        sep = {'and': {'sym': ' & ', 'word': ' and '}, 'or': {'sym': ' | ', 'word': ' or '}}[o][st]
        return '(' + sep.join('(%s)' % rec(c, d + 1) for c in e[1:]) + ')'
    return rec(e, 0)


def support(tt, nvars):
    """Indices of the variables the truth table really depends on."""
    out = set()
    for i in range(nvars):
        for k in range(1 << nvars):
            if not (k >> i) & 1:
                if ((tt >> k) & 1) != ((tt >> (k | (1 << i))) & 1):
                    out.add(i)
                    break
    return out


def cofactor(tt, i, b, nvars):
    r = 0
    for k in range(1 << nvars):
        k2 = (k | (1 << i)) if b else (k & ~(1 << i))
        if (tt >> k2) & 1:
            r |= 1 << k
    return r


def minterm_expr(tt, variables):
    """A canonical expression with the given truth table (OR of minterms)."""
    n = len(variables)
    terms = []
    for k in range(1 << n):
        if (tt >> k) & 1:
            lits = [('v', v) if (k >> i) & 1 else ('not', ('v', v)) for i, v in enumerate(variables)]
            terms.append(('and',) + tuple(lits) if len(lits) > 1 else lits[0])
    if not terms:
        return ('c', 0)
    if len(terms) == 1:
        return terms[0]
    return ('or',) + tuple(terms)


# ---------------------------------------------------------------------------------------
# reading diagrams of the library through public attributes (var/low/high/value)

def is_terminal(node):
    return not hasattr(node, 'var')


def walk_tt(root, variables):
    """Truth table of the function denoted by a BDD, by walking it on every assignment."""
    n = len(variables)
    idx = dict((v, i) for i, v in enumerate(variables))
    t = 0
    for k in range(1 << n):
        node = root
        steps = 0
        while not is_terminal(node):
            node = node.high if (k >> idx[node.var]) & 1 else node.low
            steps += 1
            if steps > 64:
                raise ValueError('cycle in diagram')
        if node.value:
            t |= 1 << k
    return t


def reachable_nodes(root):
    seen = {}
    stack = [root]
    while stack:
        x = stack.pop()
        if id(x) in seen:
            continue
        seen[id(x)] = x
        if not is_terminal(x):
            stack.append(x.low)
            stack.append(x.high)
    return list(seen.values())


def structure_problem(root, order):
    """None if every reachable node tests a variable strictly earlier than its children's
    and has distinct children; else a description."""
    pos = dict((v, i) for i, v in enumerate(order))
    for x in reachable_nodes(root):
        if is_terminal(x):
            continue
        if x.var not in pos:
            return 'node tests %r which is not in the ordering' % (x.var,)
        if x.low is x.high:
            return 'node %r has identical children' % (x.var,)
        for ch in (x.low, x.high):
            if not is_terminal(ch) and not pos[x.var] < pos.get(ch.var, -1):
                return 'node %r is not strictly before its child %r' % (x.var, ch.var)
    return None


def unique_table_problem(BDDNode):
    """Scan of every live node: duplicate (var, low, high) triples, redundant nodes,
    more than one terminal per value."""
    nodes = list(BDDNode.nodes())
    seen = {}
    terms = {}
    for x in nodes:
        if is_terminal(x):
            key = bool(x.value)
            if key in terms and terms[key] is not x:
                return 'two live terminal nodes with value %r' % (key,)
            terms[key] = x
            continue
        if x.low is x.high:
            return 'live node %r with identical children' % (x.var,)
        key = (x.var, id(x.low), id(x.high))
        if key in seen and seen[key] is not x:
            return 'two live non-terminal nodes share (var=%r, low, high)' % (x.var,)
        seen[key] = x
    return None


# ---------------------------------------------------------------------------------------
# Hypothesis strategy

def st_expr(variables=VARS4, max_depth=4, consts=True):
    from hypothesis import strategies as hs
    leaves = [('v', v) for v in variables]
    if consts:
        leaves += [('c', 0), ('c', 1)]
    leaf = hs.sampled_from(leaves)

    @hs.composite
    def node(draw, d):
        if d <= 0:
            return draw(leaf)
        o = draw(hs.sampled_from(['leaf', 'not', 'and', 'or', 'and', 'or']))
        if o == 'leaf':
            return draw(leaf)
        if o == 'not':
            return ('not', draw(node(d - 1)))
        n = draw(hs.sampled_from([2, 2, 2, 3]))
        return (o,) + tuple(draw(node(d - 1)) for _ in range(n))

    return node(max_depth)


def enum_exprs(variables, k, consts=True):
    """All expressions with exactly <= k binary/unary operators (binary and/or, not)."""
    leaves = [('v', v) for v in variables]
    if consts:
        leaves += [('c', 0), ('c', 1)]
    levels = [list(leaves)]
    for i in range(1, k + 1):
        out = []
        for e in levels[i - 1]:
            out.append(('not', e))
        for o in ('and', 'or'):
            for j in range(i):
                for x in levels[j]:
                    for y in levels[i - 1 - j]:
                        out.append((o, x, y))
        levels.append(out)
    return [e for lv in levels for e in lv]


def fresh_str(x):
    """An equal str that is (where CPython allows) another object: names computed at run time."""
    return (x + '#')[:-1]


def shannon_build(BDDNode, tt, variables, order, fresh=True):
    """Diagram of the truth table tt built bottom-up through the BDDNode constructor (Shannon
    expansion along `order`), never through the expression parser or apply; every label is a
    freshly created str object when fresh=True."""
    n = len(variables)

    def rec(t, rest):
        if t == 0:
            return BDDNode(0)
        if t == tt_full(n):
            return BDDNode(1)
        v = rest[0]
        i = variables.index(v)
        lo = rec(cofactor(t, i, False, n), rest[1:])
        hi = rec(cofactor(t, i, True, n), rest[1:])
        return BDDNode(fresh_str(v) if fresh else v, lo, hi)
    return rec(tt, list(order))
