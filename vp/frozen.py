"""Frozen model of the PINNED fairness behaviour (DESIGN C15, 5.2).

Used only to ATTRIBUTE a failure that the true oracle (vp/ref.py fair semantics) has already
established to one of the listed known findings: a failing case is a known finding iff the
observed outcome equals this model's prediction exactly.  Written on harness tuples with the
reference evaluators; shares no code with /repo.

Everything here describes what the code does today, not what it should do.
"""
from . import fm, ref
from . import graphs


class PredictTypeError(Exception):
    """The pinned code raises TypeError for this input."""


def admissible_fair_sets(M, F):
    """All outputs of the pinned get_fair_states: backward closure of the union of the SCCs
    that have > 1 state, meet every P, and whose REPRESENTATIVE has a self-loop.  The
    representative is an artefact of iteration order, so every choice is admissible."""
    comps = [c for c in graphs.scc_partition(M.n, [tuple(e) for e in M.K['edges']]) if len(c) > 1]
    comps = [c for c in comps if all(ref.list_to_mask(c) & P for P in F)]
    options = [[]]
    for c in sorted(comps, key=sorted):
        can_in = any((M.succ[v] >> v) & 1 for v in c)
        can_out = any(not (M.succ[v] >> v) & 1 for v in c)
        nxt = []
        for o in options:
            if can_in:
                nxt.append(o + [c])
            if can_out:
                nxt.append(o)
        options = nxt
    out = set()
    for o in options:
        seed = 0
        for c in o:
            seed |= ref.list_to_mask(c)
        # backward reachability
        Z = seed
        while True:
            Z2 = Z | M.pre_e(Z)
            if Z2 == Z:
                break
            Z = Z2
        out.add(Z)
    return out


# ---------------------------------------------------------------------------------------

def _not(M, x):
    return M.full & ~x


def _ctl_quant(M, q, o, A_, B_, fair):
    """Pinned CTL fair reduction of  q (o A_ [B_])  on already reduced operand sets."""
    full = M.full

    def EX(x):
        return M.pre_e(x)

    def EU(a, b):
        return ref._lfp(lambda Z: b | (a & M.pre_e(Z)))

    def EG(a):
        return ref._gfp(lambda Z: a & M.pre_e(Z), full)

    if q == 'E':
        if o == 'X':
            return EX(A_ & fair)
        if o == 'F':
            return EU(full, A_ & fair)
        if o == 'G':
            return EG(A_ & fair)
        if o == 'U':
            return EU(A_, B_ & fair)
        raise PredictTypeError('E R')          # EU() called with three operands
    nA = _not(M, A_)
    if o == 'X':
        return _not(M, EX(nA & fair))
    if o == 'F':
        return _not(M, EG(nA & fair))
    if o == 'G':
        return _not(M, EU(full, nA & fair))
    nB = _not(M, B_)
    if o == 'U':
        return _not(M, EU(nB, _not(M, A_ | B_) & fair) | EG(nB & fair))
    return _not(M, EU(nA, nB & fair))          # A (a R b)


def ctl_direct(M, t, fair):
    """CTL.modelcheck(K, t, F=..) as pinned, for the observed fair-state mask `fair`."""
    k = t[0]
    if k == 'ap':
        return M.lab.get(t[1], 0) & fair
    if k == 'true':
        return fair
    if k == 'false':
        return 0
    if k == 'not':
        return _not(M, ctl_direct(M, t[1], fair))
    if k == 'and':
        r = M.full
        for c in t[1:]:
            r &= ctl_direct(M, c, fair)
        return r
    if k == 'or':
        r = 0
        for c in t[1:]:
            r |= ctl_direct(M, c, fair)
        return r
    if k == 'imp':
        return _not(M, ctl_direct(M, t[1], fair)) | ctl_direct(M, t[2], fair)
    if k in fm.QUANT:
        g = t[1]
        ops = [ctl_direct(M, c, fair) for c in g[1:]]
        return _ctl_quant(M, k, g[0], ops[0], ops[1] if len(ops) > 1 else None, fair)
    raise ValueError('not a CTL formula %r' % (t,))


def contains_ER(t):
    if t[0] == 'E' and t[1][0] == 'R':
        return True
    return any(contains_ER(c) for c in fm.children(t))


def ctl(M, t, fair):
    """Outcome of the pinned CTL.modelcheck with F: ('set', mask) or ('exc', 'TypeError')."""
    if contains_ER(t):
        return ('exc', 'TypeError')
    return ('set', ctl_direct(M, t, fair))


def ltl(M, t, fair):
    return ('exc', 'TypeError')


# ---- CTL* --------------------------------------------------------------------------------

def _red(M, g, fair):
    """Every leaf of the (abstracted) formula conjoined with fair."""
    k = g[0]
    if k == 'set':
        return ('set', g[1] & fair)
    if k == 'ap':
        return ('set', M.lab.get(g[1], 0) & fair)
    if k == 'true':
        return ('set', fair)
    if k == 'false':
        return ('set', 0)
    return (k,) + tuple(_red(M, c, fair) for c in g[1:])


def _replace_quantified(M, g, fair):
    """Innermost-first replacement of quantified subformulas by the sets the pinned code
    labels with a fresh atom."""
    k = g[0]
    if k in fm.QUANT:
        return ('set', _quantified(M, g, fair))
    if k in fm.LEAF:
        return g
    return (k,) + tuple(_replace_quantified(M, c, fair) for c in g[1:])


def _bool_eval(M, g):
    """Boolean combination of ('set', m) leaves."""
    k = g[0]
    if k == 'set':
        return g[1]
    if k == 'not':
        return _not(M, _bool_eval(M, g[1]))
    if k == 'and':
        r = M.full
        for c in g[1:]:
            r &= _bool_eval(M, c)
        return r
    if k == 'or':
        r = 0
        for c in g[1:]:
            r |= _bool_eval(M, c)
        return r
    if k == 'imp':
        return _not(M, _bool_eval(M, g[1])) | _bool_eval(M, g[2])
    raise ValueError(g)


def _is_bool_of_leaves(g):
    if g[0] in fm.LEAF:
        return True
    return g[0] in fm.BOOL and all(_is_bool_of_leaves(c) for c in g[1:])


def _quantified(M, t, fair):
    """The set the pinned _checkQuantifiedFormula computes for Q g under a fair label."""
    q = t[0]
    body = _replace_quantified(M, t[1], fair)
    if body[0] in fm.TEMP and all(_is_bool_of_leaves(c) for c in body[1:]):
        # CTL-shaped: the CTL fair reduction (atoms, Booleans and replaced quantifiers are
        # all atoms there, each conjoined with fair)
        ops = [_bool_eval(M, _red(M, c, fair)) for c in body[1:]]
        # E (a R b): the CTL reduction raises TypeError; the handler of the pinned code calls
        # the same reduction again on the CTL object, so the TypeError escapes the whole call
        return _ctl_quant(M, q, body[0], ops[0], ops[1] if len(ops) > 1 else None, fair)
    r = _red(M, body, fair)
    if q == 'A':
        # A not(not g' and fair): all (plain) paths satisfy g', or the state is not fair
        allp = M.full & ~ref.exists(M, ('not', r))
        return _not(M, fair) | allp
    # E (fair and g'): the state is fair and some (plain) path satisfies g'
    return fair & ref.exists(M, r)


def ctls(M, t, fair):
    """Outcome of the pinned CTLS.modelcheck with F for a CTL* state formula t."""
    try:
        top = _replace_quantified(M, t, fair)
    except PredictTypeError:
        return ('exc', 'TypeError')
    return ('set', _bool_eval(M, _red(M, top, fair)))
