"""Entry point:  python -m vp.run <ID> [--tier quick|thorough] [--replay FILE]

VERIF_SEED (default 1) and VERIF_TIER are honoured.  See DESIGN.md 3.4.
"""
import argparse
import importlib
import json
import os
import sys
import traceback

from . import core


def main(argv=None):
    ap = argparse.ArgumentParser()
    ap.add_argument('pid')
    ap.add_argument('--tier', default=None)
    ap.add_argument('--replay', default=None)
    args = ap.parse_args(argv)
    pid = args.pid.upper()
    tier = os.environ.get('VERIF_TIER') or args.tier or 'quick'
    if tier not in ('quick', 'thorough'):
        tier = 'quick'
    try:
        seed = int(os.environ.get('VERIF_SEED', '1'))
    except ValueError:
        seed = 1

    # a run is a pure function of the tree and VERIF_SEED: pin the hash seed too
    # (C06 chooses hash seeds for its sub-interpreters itself)
    if os.environ.get('PYTHONHASHSEED') != '0':
        env = dict(os.environ, PYTHONHASHSEED='0', PYTHONDONTWRITEBYTECODE='1')
        os.execve(sys.executable, [sys.executable, '-m', 'vp.run'] + sys.argv[1:], env)

    ctx = core.Ctx(pid, tier, seed)
    try:
        core.bootstrap()
        mod = importlib.import_module('vp.props.%s' % pid.lower())
        if args.replay:
            with open(args.replay) as fh:
                rec = json.load(fh)
            if rec.get('check') == 'build':
                # a structure the constructor refused: does it still?
                from . import km
                try:
                    km.to_lib(**rec['input'])
                    f = None
                except core.Refused as r:
                    f = r.failure
            else:
                f = mod.replay(ctx, rec)
            if f is not None:
                sys.stdout.write('VIOLATION property=%s replay=%s\n' % (pid, args.replay))
                sys.stdout.write('  detail: %r\n' % (f,))
                return 1
            sys.stdout.write('replay passes: property=%s %s\n' % (pid, args.replay))
            return 0
        # regression tier first: corpus of defects since fixed
        for name, rec in core.load_corpus(pid):
            f = mod.replay(ctx, rec)
            ctx.stats.add_extra('corpus_replayed')
            if f is not None:
                ctx.violation(f)
        if not ctx.violations:
            try:
                mod.run(ctx)
            except core.Refused as r:
                ctx.violation(r.failure)
        ev = ctx.write_evidence()
        cov = ev['coverage']
        sys.stdout.write('%s tier=%s seed=%d evaluations=%d distinct_nontrivial=%d '
                         'violations=%d wall=%.1fs\n' % (
                             pid, tier, seed, cov['evaluations'], cov['distinct_nontrivial'],
                             len(ctx.violations), ev['wall_s']))
        return 1 if ctx.violations else 0
    except core.HarnessError as e:
        sys.stderr.write('HARNESS ERROR (%s): %s\n' % (pid, e))
        return 2
    except Exception:
        sys.stderr.write('HARNESS ERROR (%s):\n%s\n' % (pid, traceback.format_exc()))
        return 2


if __name__ == '__main__':
    sys.exit(main())
