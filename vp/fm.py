"""Harness-side formula model (DESIGN 3.1): immutable tuples, bridges to the library,
membership recognisers written from doc/source/logics.rst, printers and enumerators.

('ap', name) ('true',) ('false',) ('not', f) ('and', f1..fn) ('or', f1..fn) ('imp', f, g)
('X', f) ('F', f) ('G', f) ('U', f, g) ('R', f, g) ('A', g) ('E', g)
('set', mask) leaves occur only inside the reference evaluators.
"""
import itertools

TRUE = ('true',)
FALSE = ('false',)
BOOL = ('not', 'and', 'or', 'imp')
TEMP = ('X', 'F', 'G', 'U', 'R')
QUANT = ('A', 'E')
LEAF = ('ap', 'true', 'false', 'set')
CLASSNAME = {'not': 'Not', 'and': 'And', 'or': 'Or', 'imp': 'Imply', 'X': 'X', 'F': 'F',
             'G': 'G', 'U': 'U', 'R': 'R', 'A': 'A', 'E': 'E', 'ap': 'AtomicProposition',
             'true': 'Bool', 'false': 'Bool'}
KINDNAME = dict((v, k) for k, v in CLASSNAME.items() if k not in ('true', 'false', 'ap'))
SYMBOL = {'not': 'not', 'and': 'and', 'or': 'or', 'imp': '-->', 'X': 'X', 'F': 'F', 'G': 'G',
          'U': 'U', 'R': 'R', 'A': 'A', 'E': 'E'}


def ap(name):
    return ('ap', name)


def from_json(x):
    """Nested lists (as stored in replay files) -> tuples."""
    if isinstance(x, (list, tuple)):
        return tuple(from_json(c) if isinstance(c, (list, tuple)) else c for c in x)
    return x


def children(t):
    return () if t[0] in LEAF else t[1:]


def size(t):
    """Number of operator nodes."""
    return 0 if t[0] in LEAF else 1 + sum(size(c) for c in t[1:])


def depth(t):
    return 0 if t[0] in LEAF else 1 + max(depth(c) for c in t[1:])


def ops(t, acc=None):
    acc = set() if acc is None else acc
    if t[0] not in LEAF:
        acc.add(t[0])
        for c in t[1:]:
            ops(c, acc)
    return acc


def atoms(t, acc=None):
    acc = set() if acc is None else acc
    if t[0] == 'ap':
        acc.add(t[1])
    for c in children(t):
        atoms(c, acc)
    return acc


def subformulas(t, acc=None):
    acc = [] if acc is None else acc
    for c in children(t):
        subformulas(c, acc)
    if t not in acc:
        acc.append(t)
    return acc


def temporal_count(t):
    """Temporal operators not counting what is under a nested quantifier separately."""
    return (1 if t[0] in TEMP else 0) + sum(temporal_count(c) for c in children(t))


def quant_depth(t):
    d = max([quant_depth(c) for c in children(t)] or [0])
    return d + 1 if t[0] in QUANT else d


# atom vocabularies: the reference works on p/q; the library is asked about the SAME structure and
# formula with the atoms spelled differently (short names, names that are substrings or prefixes of
# the keywords and constants, a swap, one name a prefix of the other).  Index 0-2: identity.
ATOM_MAPS = [None, None, None,
             {'p': 'a', 'q': 'b'}, {'p': 'n', 'q': 'o'}, {'p': 't', 'q': 'f'}, {'p': 'e', 'q': 's'},
             {'p': 'no', 'q': 'al'}, {'p': 'l', 'q': 'se'}, {'p': 'x1', 'q': 'x_2'}, {'p': 'q', 'q': 'p'},
             {'p': 'pp', 'q': 'p'}, {'p': 'P', 'q': 'Q'}, {'p': 'tru', 'q': 'fals'}, {'p': 'u', 'q': 'r'},
             {'p': 'state', 'q': 'next_'}, {'p': 'an', 'q': 'd'}, {'p': 'g', 'q': 'x'}]


def atom_map(i):
    return ATOM_MAPS[i % len(ATOM_MAPS)] if i is not None else None


def rename_atoms(t, m):
    if not m:
        return t
    if t[0] == 'ap':
        return ('ap', m.get(t[1], t[1]))
    if t[0] in LEAF:
        return t
    return (t[0],) + tuple(rename_atoms(c, m) for c in t[1:])


# ---------------------------------------------------------------------------------------
# bridges to the library

def lang(name):
    import pyModelChecking.PL
    import pyModelChecking.CTL
    import pyModelChecking.LTL
    import pyModelChecking.CTLS
    return {'PL': pyModelChecking.PL, 'CTL': pyModelChecking.CTL, 'LTL': pyModelChecking.LTL,
            'CTLS': pyModelChecking.CTLS}[name]


class CannotBuild(Exception):
    """The language has no constructor for this operator (e.g. LTL.E, PL.X)."""


def to_lib(t, Lang, raw_leaves=False, share=None):
    """Build the library object bottom-up with Lang's own constructors.

    raw_leaves: pass atoms as str and constants as bool to the parent constructor (the
    documented shortcut), instead of explicit AtomicProposition/Bool objects.
    share: a dict; equal subtrees are then built ONCE and the same object is used at every place
    (req = And(p, q); G(req --> F(req))), as user code that keeps a subformula in a variable does.
    """
    if share is not None:
        if t not in share:
            share[t] = _to_lib(t, Lang, raw_leaves, share)
        return share[t]
    return _to_lib(t, Lang, raw_leaves, None)


def _to_lib(t, Lang, raw_leaves, share):
    k = t[0]
    if k == 'ap':
        return Lang.AtomicProposition(t[1])
    if k == 'true':
        return Lang.Bool(True)
    if k == 'false':
        return Lang.Bool(False)
    cls = getattr(Lang, CLASSNAME[k], None)
    if cls is None:
        raise CannotBuild('%s has no %s' % (Lang.__name__, CLASSNAME[k]))
    kids = []
    for c in t[1:]:
        if raw_leaves and c[0] == 'ap':
            kids.append(c[1])
        elif raw_leaves and c[0] in ('true', 'false'):
            kids.append(c[0] == 'true')
        else:
            kids.append(to_lib(c, Lang, raw_leaves, share))
    return cls(*kids)


def structure(obj):
    """Read a library formula back into a tuple by class name, atom name and child order.

    Never goes through ==, hash or str of composite formulas (those are under test).
    """
    name = type(obj).__name__
    if name == 'Bool':
        v = getattr(obj, '_value', None)
        if v is None:
            v = (str(obj) == 'true')
        return TRUE if v else FALSE
    if name == 'AtomicProposition':
        return ('ap', obj.name)
    if name not in KINDNAME:
        raise ValueError('unknown formula class %r' % (type(obj),))
    return (KINDNAME[name],) + tuple(structure(c) for c in obj.subformulas())


def module_lang(obj):
    """'PL' / 'CTL' / 'LTL' / 'CTLS' from the module the object's class lives in."""
    parts = type(obj).__module__.split('.')
    return parts[1] if len(parts) > 1 else None


def foreign_node(obj, langname):
    """None if obj is a formula OBJECT of the logic the way the library itself defines it - the
    root's class is defined in the logic's module and every node is an instance of the logic's
    Formula class - else a description of the offending node.  (Deliberately not 'every node's
    class is defined in that module': a refactoring may share leaf classes between logics.)"""
    base = lang(langname).Formula
    if module_lang(obj) != langname:
        return 'the root is a %s of %s' % (type(obj).__name__, type(obj).__module__)
    for node in all_nodes(obj):
        if not isinstance(node, base):
            return 'node %s of %s is not an instance of %s.Formula' % (
                type(node).__name__, type(node).__module__, langname)
    return None


def all_nodes(obj):
    out = [obj]
    for c in obj.subformulas():
        out.extend(all_nodes(c))
    return out


# ---------------------------------------------------------------------------------------
# membership recognisers (doc/source/logics.rst)

def is_pl(t):
    k = t[0]
    if k in ('ap', 'true', 'false'):
        return True
    return k in BOOL and all(is_pl(c) for c in t[1:])


def ctls_state(t):
    k = t[0]
    if k in ('ap', 'true', 'false'):
        return True
    if k in QUANT:
        return True          # the body is any CTL* path formula = any tree
    if k in BOOL:
        return all(ctls_state(c) for c in t[1:])
    return False


def ctl_state(t):
    k = t[0]
    if k in ('ap', 'true', 'false'):
        return True
    if k in BOOL:
        return all(ctl_state(c) for c in t[1:])
    if k in QUANT:
        return ctl_path(t[1])
    return False


def ctl_path(t):
    return t[0] in TEMP and all(ctl_state(c) for c in t[1:])


def ltl_path(t):
    k = t[0]
    if k in ('ap', 'true', 'false'):
        return True
    if k in BOOL or k in TEMP:
        return all(ltl_path(c) for c in t[1:])
    return False


def ltl_state(t):
    return t[0] == 'A' and ltl_path(t[1])


def kind(langname, t):
    """'state' / 'path' / None: is the tree a formula of that logic, and of which sort.

    PL has one sort, reported as 'state'.  In CTL* every state formula is also a path
    formula; 'state' is reported for those.
    """
    if langname == 'PL':
        return 'state' if is_pl(t) else None
    if langname == 'CTLS':
        return 'state' if ctls_state(t) else 'path'
    if langname == 'CTL':
        if ctl_state(t):
            return 'state'
        return 'path' if ctl_path(t) else None
    if langname == 'LTL':
        if ltl_state(t):
            return 'state'
        return 'path' if ltl_path(t) else None
    raise ValueError(langname)


# ---------------------------------------------------------------------------------------
# independent printer (fully parenthesised text in the notation every parser shares)

IDENT_START = set('abcdefghijklmnopqrstuvwxyzABCDEFGHIJKLMNOPQRSTUVWXYZ_')
IDENT_REST = IDENT_START | set('0123456789')
RESERVED = set(['true', 'false', 'not', 'and', 'or', 'A', 'E', 'X', 'F', 'G', 'U', 'R'])


def is_identifier(name):
    return bool(name) and name[0] in IDENT_START and all(c in IDENT_REST for c in name)


def atom_text(name):
    if is_identifier(name) and name not in RESERVED:
        return name
    if '"' in name or '\\' in name or '\n' in name:
        raise ValueError('atom %r cannot be written as text' % (name,))
    return '"%s"' % name


def to_text(t):
    k = t[0]
    if k == 'ap':
        return atom_text(t[1])
    if k in ('true', 'false'):
        return k
    if len(t) == 2:
        return '%s (%s)' % (SYMBOL[k], to_text(t[1]))
    return '(' + (' %s ' % SYMBOL[k]).join('(%s)' % to_text(c) for c in t[1:]) + ')'


def to_text_loose(t):
    """Minimal parentheses, the way a user would type it (unary operators bind tightest)."""
    k = t[0]
    if k == 'ap':
        return atom_text(t[1])
    if k in ('true', 'false'):
        return k
    if len(t) == 2:
        c = t[1]
        inner = to_text_loose(c)
        if len(c) > 2:
            return '%s %s' % (SYMBOL[k], inner)        # binary child already parenthesised
        return '%s %s' % (SYMBOL[k], inner)
    return '(' + (' %s ' % SYMBOL[k]).join(to_text_loose(c) for c in t[1:]) + ')'


# ---------------------------------------------------------------------------------------
# enumerators by operator count

P, Q = ap('p'), ap('q')
LEAVES4 = (P, Q, TRUE, FALSE)


def _un(op):
    return lambda f: (op, f)


def _bin(op):
    return lambda f, g: (op, f, g)


def _qt(q, op):
    if op in ('X', 'F', 'G'):
        return lambda f: (q, (op, f))
    return lambda f, g: (q, (op, f, g))


CTL_UN = [('not', _un('not'))] + [(q + o, _qt(q, o)) for q in 'AE' for o in 'XFG']
CTL_BIN = [(o, _bin(o)) for o in ('and', 'or', 'imp')] + \
          [(q + o, _qt(q, o)) for q in 'AE' for o in 'UR']
LTL_UN = [(o, _un(o)) for o in ('not', 'X', 'F', 'G')]
LTL_BIN = [(o, _bin(o)) for o in ('and', 'or', 'imp', 'U', 'R')]
PL_UN = [('not', _un('not'))]
PL_BIN = [(o, _bin(o)) for o in ('and', 'or', 'imp')]

_ENUM_CACHE = {}


def enum_exact(un, bin_, leaves, k, key=None):
    """All formulas with exactly k operator applications (deterministic order)."""
    ck = (key, tuple(leaves), k)
    if key is not None and ck in _ENUM_CACHE:
        return _ENUM_CACHE[ck]
    if k == 0:
        out = list(leaves)
    else:
        out = []
        sub = enum_exact(un, bin_, leaves, k - 1, key)
        for _, mk in un:
            for f in sub:
                out.append(mk(f))
        for _, mk in bin_:
            for i in range(k):
                for f in enum_exact(un, bin_, leaves, i, key):
                    for g in enum_exact(un, bin_, leaves, k - 1 - i, key):
                        out.append(mk(f, g))
    if key is not None:
        _ENUM_CACHE[ck] = out
    return out


_COUNT_CACHE = {}


def count_exact(un, bin_, leaves, k):
    """Number of formulas enum_exact would produce, without producing them."""
    ck = (len(un), len(bin_), len(leaves), k)
    if ck not in _COUNT_CACHE:
        if k == 0:
            r = len(leaves)
        else:
            r = len(un) * count_exact(un, bin_, leaves, k - 1)
            r += len(bin_) * sum(count_exact(un, bin_, leaves, j) * count_exact(un, bin_, leaves, k - 1 - j)
                                 for j in range(k))
        _COUNT_CACHE[ck] = r
    return _COUNT_CACHE[ck]


def formula_at(un, bin_, leaves, k, i):
    """The i-th formula of enum_exact(un, bin_, leaves, k), by mixed-radix decoding."""
    if k == 0:
        return leaves[i]
    c1 = count_exact(un, bin_, leaves, k - 1)
    if i < len(un) * c1:
        return un[i // c1][1](formula_at(un, bin_, leaves, k - 1, i % c1))
    i -= len(un) * c1
    block = sum(count_exact(un, bin_, leaves, j) * count_exact(un, bin_, leaves, k - 1 - j) for j in range(k))
    mk = bin_[i // block][1]
    r = i % block
    for j in range(k):
        cj, cr = count_exact(un, bin_, leaves, j), count_exact(un, bin_, leaves, k - 1 - j)
        if r < cj * cr:
            return mk(formula_at(un, bin_, leaves, j, r // cr), formula_at(un, bin_, leaves, k - 1 - j, r % cr))
        r -= cj * cr
    raise IndexError(i)


def enum_strided(un, bin_, leaves, k, stride, offset=0):
    """Every stride-th formula with exactly k operators, without materialising the others."""
    n = count_exact(un, bin_, leaves, k)
    return [formula_at(un, bin_, leaves, k, i) for i in range(offset % stride, n, stride)]


def enum_upto(un, bin_, leaves, k, key=None):
    out = []
    for i in range(k + 1):
        out.extend(enum_exact(un, bin_, leaves, i, key))
    return out


def ctl_formulas(k, leaves=LEAVES4):
    return enum_upto(CTL_UN, CTL_BIN, leaves, k, 'ctl')


def ltl_paths(k, leaves=LEAVES4):
    return enum_upto(LTL_UN, LTL_BIN, leaves, k, 'ltl')


def pl_formulas(k, leaves=LEAVES4):
    return enum_upto(PL_UN, PL_BIN, leaves, k, 'pl')


def union_trees(depth_, leaves):
    """All operator trees of depth <= depth_ over the union alphabet (binary and/or)."""
    un = ['not', 'X', 'F', 'G', 'A', 'E']
    bi = ['and', 'or', 'imp', 'U', 'R']
    level = list(leaves)
    allt = list(leaves)
    for _ in range(depth_):
        new = []
        prev = allt
        lastset = set(level)
        for o in un:
            for f in level:
                new.append((o, f))
        for o in bi:
            for f in prev:
                for g in prev:
                    if f in lastset or g in lastset:
                        new.append((o, f, g))
        level = new
        allt = allt + new
    return allt


# ---------------------------------------------------------------------------------------
# families with REPEATED subformulas (memo tables, fresh-atom tables and caches keyed by a
# printed form are exercised only when the same subformula occurs several times, under
# different polarities or different quantifiers)

def skeletons():
    """Propositional skeletons over a slot x that occurs at least twice, under both polarities,
    and a second slot y."""
    return [
        lambda x, y: ('imp', x, ('and', x, y)),
        lambda x, y: ('not', ('and', x, ('not', ('or', x, y)))),
        lambda x, y: ('and', ('or', x, y), ('not', x)),
        lambda x, y: ('or', ('not', x), ('and', y, x)),
        lambda x, y: ('imp', ('imp', x, y), x),
        lambda x, y: ('and', ('not', ('and', x, y)), ('or', x, y)),
        lambda x, y: ('or', ('and', x, y), ('and', ('not', x), ('not', y))),
        lambda x, y: ('imp', x, x),
        lambda x, y: ('and', x, ('not', x)),
        lambda x, y: ('not', ('imp', ('not', x), ('and', y, ('not', x)))),
        lambda x, y: ('and', x, y, ('not', x)),
        lambda x, y: ('or', ('not', y), x, ('not', x)),
    ]


def repeated_family(xs, ys, wraps):
    out = []
    for x in xs:
        for y in ys:
            for sk in skeletons():
                body = sk(x, y)
                for w in wraps:
                    out.append(w(body))
    return out


def ltl_repeated():
    """LTL path formulas with a repeated temporal subformula (360)."""
    # kept to <= 3 distinct temporal subformulas: the tableau under test is exponential
    xs = [('F', P), ('G', P), ('U', P, Q), ('R', P, Q), ('X', P)]
    ys = [Q, ('X', Q)]
    wraps = [lambda b: b, lambda b: ('G', b), lambda b: ('X', b)]
    return repeated_family(xs, ys, wraps)


def ctl_repeated():
    """CTL state formulas with a repeated quantified subformula."""
    xs = [(q, (o, P)) for q in 'AE' for o in 'XFG'] + [(q, (o, P, Q)) for q in 'AE' for o in 'UR']
    ys = [Q, ('E', ('X', Q)), ('A', ('G', Q))]
    wraps = [lambda b: b, lambda b: ('E', ('X', b)), lambda b: ('A', ('G', b)), lambda b: ('E', ('F', b)),
             lambda b: ('E', ('U', Q, b)), lambda b: ('not', ('A', ('F', b)))]
    return repeated_family(xs, ys, wraps)


def nary_family(xs, wraps, arities=(3, 4)):
    """and / or nodes with 3 and 4 operands (the parsers build 'a or b or c' as ONE node) over the
    operand pool xs, under the wrappers."""
    out = []
    n = len(xs)
    for o in ('or', 'and'):
        for i in range(n):
            for j in range(n):
                for k in range(n):
                    if 3 in arities and (len(set([i, j, k])) == 3 or (i == j and j != k and (i + k) % 3 == 0)):
                        body = (o, xs[i], xs[j], xs[k])
                        for w in wraps:
                            out.append(w(body))
        if 4 in arities:
            for i in range(n):
                body = (o, xs[i], xs[(i + 1) % n], xs[(i + 3) % n], xs[(i + 4) % n])
                for w in wraps:
                    out.append(w(body))
    return out


def ltl_nary():
    xs = [P, Q, ('G', P), ('X', Q), ('F', Q), ('U', P, Q), ('not', ('X', P))]
    return nary_family(xs, [lambda b: b, lambda b: ('X', b)])


def ctls_nary():
    xs = [P, Q, ('G', P), ('X', Q), ('F', Q), ('U', P, Q), ('F', ('G', P))]
    wraps = [lambda b: ('E', b), lambda b: ('A', b), lambda b: ('not', ('E', b)), lambda b: ('A', ('G', ('E', b)))]
    return nary_family(xs, wraps)


def ctl_nary():
    xs = [P, Q, ('E', ('G', P)), ('A', ('X', Q)), ('E', ('F', Q)), ('A', ('U', P, Q)), ('not', ('E', ('X', P)))]
    wraps = [lambda b: b, lambda b: ('E', ('X', b)), lambda b: ('A', ('G', b)), lambda b: ('E', ('U', b, Q)), lambda b: ('not', b)]
    return nary_family(xs, wraps)


def ctl_twins():
    """CTL formulas that contain BOTH a formula and the form the checker rewrites it to (AF p with
    not EG not p, EF p with E(true U p), p --> q with not p or q, ...): memo entries stored under one
    key and looked up under the other show up here."""
    def n(x):
        return ('not', x)
    tw = [
        (('A', ('F', P)), n(('E', ('G', n(P))))),
        (('E', ('F', P)), ('E', ('U', TRUE, P))),
        (('A', ('G', P)), n(('E', ('U', TRUE, n(P))))),
        (('A', ('X', P)), n(('E', ('X', n(P))))),
        (('A', ('U', P, Q)), n(('or', ('E', ('U', n(Q), n(('or', P, Q)))), ('E', ('G', n(Q)))))),
        (('A', ('R', P, Q)), n(('E', ('U', n(P), n(Q))))),
        (('E', ('R', P, Q)), ('or', ('E', ('U', Q, n(('or', n(P), n(Q))))), ('E', ('G', Q)))),
        (('and', P, ('E', ('X', Q))), n(('or', n(P), n(('E', ('X', Q)))))),
        (('imp', ('E', ('G', P)), Q), ('or', n(('E', ('G', P))), Q)),
        (FALSE, n(TRUE)),
    ]
    out = []
    wraps = [lambda b: b, lambda b: ('E', ('X', b)), lambda b: ('A', ('G', b)), lambda b: n(('E', ('F', b)))]
    for x, t in tw:
        for body in (('and', x, n(t)), ('or', n(x), t), ('and', t, n(x)), ('and', ('or', x, Q), t), ('imp', t, ('and', x, P)),
                     ('or', x, t, Q), ('and', t, x)):
            for w in wraps:
                out.append(w(body))
    return out


SLOT = ('ap', '__slot__')


def _count(t, x):
    if t == x:
        return 1
    if t[0] in LEAF:
        return 0
    return sum(_count(c, x) for c in t[1:])


def subst_each(t, x, by):
    """Replace the occurrences of x in t, in pre-order, by the successive items of the list `by`."""
    it = iter(by)

    def rec(t):
        if t == x:
            return next(it)
        if t[0] in LEAF:
            return t
        return (t[0],) + tuple(rec(c) for c in t[1:])
    return rec(t)


def subst(t, x, by):
    if t == x:
        return by
    if t[0] in LEAF:
        return t
    return (t[0],) + tuple(subst(c, x, by) for c in t[1:])


_CTX_CACHE = {}


def contexts(un, bin_, k, key, leaves=None):
    """Every formula with <= k operators over the leaves {p, q, SLOT} in which SLOT occurs at least twice."""
    ck = (key, k)
    if ck not in _CTX_CACHE:
        lv = (P, Q, SLOT) if leaves is None else tuple(leaves) + (SLOT,)
        _CTX_CACHE[ck] = [c for j in range(1, k + 1) for c in enum_exact(un, bin_, lv, j, key + '-ctx')
                          if _count(c, SLOT) >= 2]
    return _CTX_CACHE[ck]


def context_family(un, bin_, k, key, subs, stride=1, offset=0):
    """ANY repeated subformula: every context of <= k operators over {p, q, SLOT} with SLOT at least
    twice, SLOT replaced by every formula of `subs` (Boolean ones too: p --> (q --> r) next to
    q --> r); every stride-th of the (context, sub) pairs."""
    cs = contexts(un, bin_, k, key)
    out = []
    i = offset
    total = len(cs) * len(subs)
    while i < total:
        out.append(subst(cs[i // len(subs)], SLOT, subs[i % len(subs)]))
        i += stride
    return out


def ctl_context(stride=1):
    """CTL: contexts of <= 2 operators x every 1-operator formula over {p,q,true,false} (compound
    operands only; 140 of them)."""
    return context_family(CTL_UN, CTL_BIN, 2, 'ctl', enum_exact(CTL_UN, CTL_BIN, LEAVES4, 1, 'ctl'), stride)


def ltl_context():
    """LTL: contexts of <= 2 operators x every 1-operator path formula over {p,q,true,false} (39 840;
    at most 3 distinct temporal subformulas each, the tableau under test being exponential)."""
    return context_family(LTL_UN, LTL_BIN, 2, 'ltl', enum_exact(LTL_UN, LTL_BIN, LEAVES4, 1, 'ltl'))


def ctls_context_q():
    """CTL*: Q1 ctx[Q2 h]: the repeated subformula is a QUANTIFIED one-temporal-operator formula inside a
    path context of <= 2 operators under an outer quantifier (23 240)."""
    subs = [(q, h) for q in 'AE' for h in enum_exact(LTL_UN, LTL_BIN, (P, Q), 1, 'ltl2') if h[0] in TEMP]
    body = context_family(LTL_UN, LTL_BIN, 2, 'ltl', subs)
    return [(q, b) for b in body for q in 'AE']


def ctls_siblings():
    """CTL* state formulas in which the SAME non-CTL path formula g is quantified twice, by the
    same or by different quantifiers, as siblings in a Boolean combination, at top level and under an
    outer quantifier + temporal operator (1 344 formulas)."""
    gs = [('G', ('imp', P, ('F', Q))), ('F', ('G', P)), ('G', ('F', P)), ('U', ('X', P), Q), ('U', P, ('X', Q)),
          ('F', ('and', P, ('X', Q))), ('G', ('or', P, ('X', Q))), ('X', ('X', P))]
    bools = [lambda a, b: ('and', a, b), lambda a, b: ('or', a, b), lambda a, b: ('and', ('not', a), b),
             lambda a, b: ('and', a, ('not', b)), lambda a, b: ('imp', a, b), lambda a, b: ('or', ('not', a), ('not', b))]
    outers = [lambda f: f] + [(lambda f, q0=q0, t0=t0: (q0, (t0, f))) for q0 in 'AE' for t0 in 'FGX']
    out = []
    for g in gs:
        for q1 in 'AE':
            for q2 in 'AE':
                for bo in bools:
                    for w in outers:
                        out.append(w(bo((q1, g), (q2, g))))
    return out


# ---------------------------------------------------------------------------------------
# Hypothesis strategies (construction, no filtering)

def st_formula(kind_, atoms_=('p', 'q'), max_depth=4, max_temporal=None, nary=True,
               consts=True):
    """Strategy for tuple formulas.

    kind_: 'pl', 'ctl' (state), 'ltl_path', 'ctls_state', 'ctls_path'.
    max_temporal bounds the temporal operators per quantifier body (LTL/CTL* tableau cost).
    """
    from hypothesis import strategies as hs

    leaf_opts = [('ap', a) for a in atoms_]
    if consts:
        leaf_opts += [TRUE, FALSE]
    leaves = hs.sampled_from(leaf_opts)

    @hs.composite
    def boolop(draw, sub, d, budget):
        o = draw(hs.sampled_from(['not', 'and', 'or', 'imp']))
        if o == 'not':
            return ('not', draw(sub(d - 1, budget)))
        if o == 'imp':
            return ('imp', draw(sub(d - 1, budget)), draw(sub(d - 1, budget)))
        n = draw(hs.sampled_from([2, 2, 2, 3] if nary else [2]))
        return (o,) + tuple(draw(sub(d - 1, budget)) for _ in range(n))

    def pl(d, budget=None):
        if d <= 0:
            return leaves
        return hs.one_of(leaves, boolop(pl, d, budget))

    @hs.composite
    def ctl_q(draw, d):
        q = draw(hs.sampled_from(['A', 'E']))
        o = draw(hs.sampled_from(['X', 'F', 'G', 'U', 'R']))
        if o in ('U', 'R'):
            return (q, (o, draw(ctl(d - 1)), draw(ctl(d - 1))))
        return (q, (o, draw(ctl(d - 1))))

    def ctl(d, budget=None):
        if d <= 0:
            return leaves
        return hs.one_of(leaves, boolop(ctl, d, budget), ctl_q(d), ctl_q(d))

    @hs.composite
    def path(draw, d, budget, state_leaf):
        """Path formula with at most `budget` temporal operators."""
        if d <= 0:
            return draw(state_leaf)
        choices = ['leaf', 'bool']
        if budget > 0:
            choices += ['temp', 'temp', 'temp']
        c = draw(hs.sampled_from(choices))
        if c == 'leaf':
            return draw(state_leaf)
        if c == 'temp':
            o = draw(hs.sampled_from(['X', 'F', 'G', 'U', 'R']))
            if o in ('U', 'R'):
                b1 = draw(hs.integers(0, budget - 1))
                return (o, draw(path(d - 1, b1, state_leaf)),
                        draw(path(d - 1, budget - 1 - b1, state_leaf)))
            return (o, draw(path(d - 1, budget - 1, state_leaf)))
        o = draw(hs.sampled_from(['not', 'and', 'or', 'imp']))
        if o == 'not':
            return ('not', draw(path(d - 1, budget, state_leaf)))
        n = 2 if o == 'imp' else draw(hs.sampled_from([2, 2, 3] if nary else [2]))
        kids = []
        left = budget
        for i in range(n):
            b = left if i == n - 1 else draw(hs.integers(0, left))
            left -= b
            kids.append(draw(path(d - 1, b, state_leaf)))
        return (o,) + tuple(kids)

    mt = 3 if max_temporal is None else max_temporal

    def ltl_path_s(d=max_depth):
        return path(d, mt, leaves)

    @hs.composite
    def ctls_state_s(draw, d, nest):
        """CTL* state formula; nest = remaining quantifier nesting."""
        if nest <= 0 or d <= 0:
            return draw(leaves)
        c = draw(hs.sampled_from(['q', 'q', 'q', 'bool', 'leaf']))
        if c == 'leaf':
            return draw(leaves)
        if c == 'bool':
            o = draw(hs.sampled_from(['not', 'and', 'or', 'imp']))
            if o == 'not':
                return ('not', draw(ctls_state_s(d - 1, nest)))
            return (o, draw(ctls_state_s(d - 1, nest)), draw(ctls_state_s(d - 1, nest)))
        q = draw(hs.sampled_from(['A', 'E']))
        inner_leaf = hs.one_of(leaves, leaves, ctls_state_s(d - 1, nest - 1)) if nest > 1 else leaves
        return (q, draw(path(d - 1, mt, inner_leaf)))

    if kind_ == 'pl':
        return pl(max_depth)
    if kind_ == 'ctl':
        return ctl(max_depth)
    if kind_ == 'ltl_path':
        return ltl_path_s()
    if kind_ == 'ctls_state':
        return ctls_state_s(max_depth, 2)
    if kind_ == 'ctls_path':
        return path(max_depth, mt, hs.one_of(leaves, leaves, ctls_state_s(max_depth - 1, 1)))
    raise ValueError(kind_)
