"""Harness-side Kripke structures (DESIGN 3.2).

A model is a JSON-able dict {'n': n, 'edges': [[i, j], ...], 'labels': [[atoms of state 0], ...]}
over states 0..n-1.  `to_lib` presents it to pyModelChecking.Kripke under a chosen naming
and collection order.
"""
import itertools

from . import graphs


def make(n, edges, labels):
    return {'n': n, 'edges': sorted([list(e) for e in edges]),
            'labels': [sorted(l) for l in labels]}


def succ_masks(K):
    s = [0] * K['n']
    for (a, b) in K['edges']:
        s[a] |= 1 << b
    return s


def is_total(K):
    return all(succ_masks(K)) if K['n'] else True


def to_lib(K, naming='int', how=0, containers='list'):
    """pyModelChecking.Kripke for the model under a presentation.

    naming: key of graphs.NAMINGS; how: 0..5 collection orders (graphs.present);
    containers: 'list' | 'set' | 'tuple' for S / R / label values.
    """
    from pyModelChecking.kripke import Kripke
    nm = graphs.NAMINGS[naming]
    V, E = graphs.present(K['n'], [tuple(e) for e in K['edges']], how, naming)
    if how == 3:
        # present() drops nodes touched by edges from V; for a Kripke all states have
        # edges, so S would be empty: that is a legal presentation (states implied by R)
        pass
    order = list(range(K['n']))
    if how in (1, 4):
        order.reverse()
    L = {}
    for i in order:
        lab = list(K['labels'][i])
        if how in (2, 5):
            lab.reverse()
        if not lab and how in (1, 3):
            continue                       # unspecified label = empty set
        if containers == 'set':
            lab = set(lab)
        elif containers == 'tuple':
            lab = tuple(lab)
        L[nm(i)] = lab
    if containers == 'shared':
        pass
    if containers == 'set':
        V, E = set(V), set(E)
    elif containers == 'tuple':
        V, E = tuple(V), tuple(E)
    # initial states: none declared, one (often leaving other states unreachable from it), several, all.
    # No checker's answer depends on them: modelcheck returns EVERY state that satisfies the formula.
    n = K['n']
    S0 = {0: None, 1: [nm(n - 1)], 2: [nm(0)], 3: None, 4: [nm(i) for i in range(n)],
          5: [nm(0), nm(n // 2)]}[how] if n else None
    if containers == 'set' and S0 is not None:
        S0 = set(S0)
    elif containers == 'tuple' and S0 is not None:
        S0 = tuple(S0)
    try:
        kr = Kripke(S=V, R=E, L=L) if S0 is None else Kripke(S=V, S0=S0, R=E, L=L)
        if containers == 'shared':
            # labels handed over through the documented replace_labelling_function, states with EQUAL
            # label sets sharing ONE set object (IDLE = {'idle'}; {0: IDLE, 1: BUSY, 2: IDLE}): whatever
            # the checkers do on their working copy must not travel along the alias
            pool = {}
            newL = dict((nm(i), pool.setdefault(frozenset(K['labels'][i]), set(K['labels'][i]))) for i in range(n))
            # ... and the dict is a table kept for a larger family of models: it also has entries for
            # things that are not states of THIS structure (the constructor ignores such keys too)
            atoms_ = sorted(set(a for l in K['labels'] for a in l)) or ['p']
            newL[('not-a-state', 1)] = set(atoms_)
            newL['ghost'] = set(atoms_[:1])
            kr.replace_labelling_function(newL)
        return kr
    except Exception as e:
        from . import core
        raise core.Refused(core.Failure('build', {'K': K, 'naming': naming, 'how': how, 'containers': containers},
                                        'Kripke(S, R, L) builds the total structure',
                                        'raised %s: %s' % (type(e).__name__, str(e)[:200]),
                                        'S=%r R=%r' % (V, E)))


BIG_SHAPES = ['timer', 'countdown', 'ring', 'lollipop', 'ladder', 'tree', 'two-rings', 'fan']


def big_structure(shape, N):
    """Large structures of a simple shape over atoms busy/done (states 0..N): counters, timers, rings,
    trees.  Their point is SIZE: thousands of states, chains as long as the structure."""
    n = N + 1
    edges = []
    done = set([N])
    if shape == 'timer':
        edges = [(i, i + 1) for i in range(N)] + [(N, N)]
    elif shape == 'countdown':
        edges = [(i, i - 1) for i in range(1, n)] + [(0, 0)]
        done = set([0])
    elif shape == 'ring':
        edges = [(i, (i + 1) % n) for i in range(n)]
    elif shape == 'lollipop':
        h = N // 2
        edges = [(i, i + 1) for i in range(N)] + [(N, h)]
    elif shape == 'ladder':
        edges = [(i, i + 1) for i in range(N)] + [(i, i) for i in range(0, n, 3)] + [(N, N)]
    elif shape == 'tree':
        for i in range(n):
            kids = [k for k in (2 * i + 1, 2 * i + 2) if k < n]
            edges += [(i, k) for k in kids] or [(i, i)]
        done = set(i for i in range(n) if 2 * i + 1 >= n and i % 2)
    elif shape == 'two-rings':
        h = N // 2
        edges = [(i, i + 1) for i in range(h)] + [(h, 0)] + [(0, h + 1)] + [(i, i + 1) for i in range(h + 1, N)] + [(N, 0)]
    elif shape == 'fan':
        edges = [(0, i) for i in range(1, n)] + [(i, i + 1) for i in range(1, N)] + [(N, N)]
    else:
        raise ValueError(shape)
    labels = [['done'] if i in done else ['busy'] for i in range(n)]
    return {'n': n, 'edges': sorted([list(e) for e in set(edges)]), 'labels': labels}


def rename_labels(K, m):
    """K with its atoms spelled as the map says (see fm.ATOM_MAPS)."""
    if not m:
        return K
    return dict(K, labels=[sorted(m.get(a, a) for a in l) for l in K['labels']])


def name_of(naming):
    return graphs.NAMINGS[naming]


def snapshot(kripke):
    """Deep, identity-aware snapshot of a library Kripke through its public API."""
    states = list(kripke.states())
    # identities are compared only where the accessor hands out the SAME object on every call
    # (an implementation returning defensive copies has no identity to preserve)
    stable_l = all(kripke.labels(s) is kripke.labels(s) for s in states)
    stable_n = all(kripke.next(s) is kripke.next(s) for s in states)
    stable_f = kripke.labelling_function() is kripke.labelling_function()
    snap = {
        'states': states,
        'transitions': frozenset(kripke.transitions()),
        'labels': dict((s, frozenset(kripke.labels(s))) for s in states),
        'label_ids': dict((s, id(kripke.labels(s))) for s in states) if stable_l else None,
        'S0': frozenset(kripke.S0),
        'next_ids': dict((s, id(kripke.next(s))) for s in states) if stable_n else None,
        'S0_id': id(kripke.S0),
        'labelling_function_id': id(kripke.labelling_function()) if stable_f else None,
        'labelling_function_keys': list(kripke.labelling_function().keys()),
        'all_labels': frozenset(kripke.labels()),
        'state_order': [repr(s) for s in states],
    }
    return snap


def snapshot_diff(a, b):
    """Human-readable first difference between two snapshots, or None."""
    for key in ('states', 'transitions', 'labels', 'S0', 'label_ids', 'next_ids', 'S0_id',
                'labelling_function_id', 'labelling_function_keys', 'all_labels', 'state_order'):
        if a[key] != b[key]:
            return '%s changed: %r -> %r' % (key, a[key], b[key])
    return None


# ---------------------------------------------------------------------------------------
# scopes

def total_relations(n):
    """All total relations on 0..n-1 as tuples of successor masks, deterministic order."""
    return itertools.product(range(1, 1 << n), repeat=n)


def labelings(n, atoms=('p', 'q')):
    subsets = []
    for r in range(len(atoms) + 1):
        for c in itertools.combinations(atoms, r):
            subsets.append(list(c))
    return itertools.product(subsets, repeat=n)


def scope(n, atoms=('p', 'q')):
    """Every total labelled structure with exactly n states over the atoms (S(n))."""
    labs = list(labelings(n, atoms))
    for rel in total_relations(n):
        edges = [[i, j] for i in range(n) for j in range(n) if (rel[i] >> j) & 1]
        for lab in labs:
            yield {'n': n, 'edges': edges, 'labels': [list(x) for x in lab]}


def scope_at(n, idx, atoms=('p', 'q')):
    """The idx-th structure of S(n) in the order of scope(n), by mixed-radix decoding."""
    nl = 1 << len(atoms)
    lab_total = nl ** n
    rel_i, lab_i = divmod(idx, lab_total)
    base = (1 << n) - 1
    rel = []
    for _ in range(n):
        rel_i, d = divmod(rel_i, base)
        rel.append(d + 1)
    rel.reverse()
    subsets = []
    for r in range(len(atoms) + 1):
        for c in itertools.combinations(atoms, r):
            subsets.append(list(c))
    labs = []
    for _ in range(n):
        lab_i, d = divmod(lab_i, nl)
        labs.append(list(subsets[d]))
    labs.reverse()
    edges = [[i, j] for i in range(n) for j in range(n) if (rel[i] >> j) & 1]
    return {'n': n, 'edges': edges, 'labels': labs}


def scope_strided(n, stride, offset=0, atoms=('p', 'q')):
    """Every stride-th structure of S(n) without enumerating the ones in between."""
    for idx in range(offset % stride, scope_size(n, len(atoms)), stride):
        yield scope_at(n, idx, atoms)


def scope_size(n, natoms=2):
    return ((1 << n) - 1) ** n * (1 << natoms) ** n


# ---------------------------------------------------------------------------------------
# classification (used for class histograms / non-triviality rules)

def features(K):
    n = K['n']
    edges = [tuple(e) for e in K['edges']]
    succ = succ_masks(K)
    comps = graphs.scc_partition(n, edges)
    feats = set()
    feats.add('states=%d' % n)
    if any(succ[i] == (1 << i) for i in range(n)):
        feats.add('self-loop-only state')
    reach0 = graphs.reachable_from(n, edges, [0]) if n else set()
    if len(reach0) < n:
        feats.add('state unreachable from state 0')
    if any(len(c) >= 2 for c in comps):
        feats.add('SCC with >=2 states')
    if len(comps) >= 2:
        feats.add('>=2 SCCs')
    return feats


# ---------------------------------------------------------------------------------------
# Hypothesis strategy (totality by construction)

def st_kripke(min_states=1, max_states=5, atoms=('p', 'q')):
    from hypothesis import strategies as hs

    @hs.composite
    def kripkes(draw):
        # Hypothesis favours small integers; small structures are enumerated exhaustively
        # elsewhere, so half of the draws come from the upper half of the range
        mid = (min_states + max_states + 1) // 2
        n = draw(hs.one_of(hs.integers(min_states, max_states), hs.integers(mid, max_states)))
        edges = []
        for i in range(n):
            m = draw(hs.integers(1, (1 << n) - 1))        # non-empty successor set
            if draw(hs.booleans()):
                m2 = draw(hs.integers(1, (1 << n) - 1))    # sparsify sometimes
                if m & m2:
                    m &= m2
            for j in range(n):
                if (m >> j) & 1:
                    edges.append([i, j])
        labels = []
        for i in range(n):
            lm = draw(hs.integers(0, (1 << len(atoms)) - 1))
            labels.append([a for k, a in enumerate(atoms) if (lm >> k) & 1])
        return {'n': n, 'edges': edges, 'labels': labels}

    return kripkes()
