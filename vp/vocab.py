"""Atom names taken from the library's OWN source text (grey-box dictionary).

A formula's atoms are user-chosen strings; the checkers keep tables keyed by formulas, by printed
forms and by plain strings.  A name that also occurs in the library's source - a variable, a keyword
argument, a dictionary key, a string constant such as 'fair' or 'pre' - is where such tables collide
with user atoms.  The dictionary is read from the tree under test at run time, so a string constant
introduced by a change is in it.
"""
import io
import os
import re
import tokenize
import ast

from . import core

RESERVED = set(['true', 'false', 'not', 'and', 'or', 'A', 'E', 'X', 'F', 'G', 'U', 'R'])
IDENT = re.compile(r'^[A-Za-z_][A-Za-z0-9_]*$')
_CACHE = {}


def names(limit_len=16):
    """Sorted identifiers and identifier-like string constants of REPO/pyModelChecking (tests excluded)."""
    if 'names' in _CACHE:
        return _CACHE['names']
    out = set()
    root = os.path.join(core.REPO, 'pyModelChecking')
    for d, _, files in os.walk(root):
        if os.sep + 'tests' in d:
            continue
        for fn in files:
            if not fn.endswith('.py'):
                continue
            try:
                src = open(os.path.join(d, fn), 'rb').read()
                for tok in tokenize.tokenize(io.BytesIO(src).readline):
                    if tok.type == tokenize.NAME:
                        out.add(tok.string)
                    elif tok.type == tokenize.STRING:
                        try:
                            v = ast.literal_eval(tok.string)
                        except Exception:
                            continue
                        if isinstance(v, bytes):
                            continue
                        if isinstance(v, str):
                            for w in re.findall(r'[A-Za-z_][A-Za-z0-9_]*', v) if len(v) < 60 else []:
                                out.add(w)
            except (tokenize.TokenError, SyntaxError, IndentationError):
                continue
    out = sorted(w for w in out if IDENT.match(w) and w not in RESERVED and len(w) <= limit_len and w not in ('q',))
    _CACHE['names'] = out
    return out
