"""Independent tokenizer and recursive-descent recognisers for the four documented grammars
(PL, CTL*, CTL, LTL), written from the grammar texts of the Parser classes / logics.rst.

Lexing is taken in its most permissive reading (DESIGN C10): whitespace is ignorable and a
run of identifier characters may be split into keyword prefixes followed by a remainder
(Lark's contextual lexer does that where an identifier is not acceptable, e.g. 'p andy' is
'p and y').  `parse_all(logic, text)` returns the set of trees over ALL tokenisations; the
real parser's tree must be one of them, and if the set is empty the text is outside the
language under every reading.
"""
import re

from . import fm

KEYWORDS = {
    'PL': ['true', 'false', 'not', 'and', 'or'],
    'CTLS': ['true', 'false', 'not', 'and', 'or', 'A', 'E', 'X', 'F', 'G', 'U', 'R'],
    'CTL': ['true', 'false', 'not', 'and', 'or', 'A', 'E', 'X', 'F', 'G', 'U', 'R'],
    'LTL': ['true', 'false', 'not', 'and', 'or', 'A', 'X', 'F', 'G', 'U', 'R'],
}
SYMBOLS = {'~': 'not', '&': 'and', '|': 'or', '-->': 'imp'}
KW_TOKEN = {'true': 'true', 'false': 'false', 'not': 'not', 'and': 'and', 'or': 'or', 'A': 'A',
            'E': 'E', 'X': 'X', 'F': 'F', 'G': 'G', 'U': 'U', 'R': 'R'}

# common.ESCAPED_STRING of Lark: "\"" /.*?/ /(?<!\\)(\\\\)*?/ "\""
ESCAPED = re.compile(r'"(?:.*?(?<!\\)(?:\\\\)*?)"')
WORD = re.compile(r'[a-zA-Z_0-9]+')
IDENT = re.compile(r'[a-zA-Z_][a-zA-Z_0-9]*$')
WS = ' \t\f\r\n'


class TooMany(Exception):
    pass


def chunk_splits(word, kws):
    """All ways to read a run of identifier characters: keyword prefixes then a remainder
    (identifier, keyword, or nothing).  A piece starting with a digit is impossible."""
    out = []
    if IDENT.match(word):
        # a keyword text is also admitted by the a_prop regex of the documented grammars
        # (Lark lexes 'U' as an atom wherever the keyword U is not acceptable)
        out.append([('ap', word)])
        if word in kws:
            out.append([(KW_TOKEN[word], word)])
    for k in kws:
        if word.startswith(k) and len(word) > len(k):
            for rest in chunk_splits(word[len(k):], kws):
                out.append([(KW_TOKEN[k], k)] + rest)
    return out


def tokenisations(logic, text, limit=3000):
    """List of token lists [(type, text), ...]; [] if the text cannot be tokenised at all."""
    kws = KEYWORDS[logic]
    segs = []          # each: list of alternative token lists
    i = 0
    n = len(text)
    while i < n:
        c = text[i]
        if c in WS:
            i += 1
            continue
        if c in '()':
            segs.append([[(c, c)]])
            i += 1
            continue
        if c in '~&|':
            segs.append([[(SYMBOLS[c], c)]])
            i += 1
            continue
        if text.startswith('-->', i):
            segs.append([[('imp', '-->')]])
            i += 3
            continue
        if c == '"':
            m = ESCAPED.match(text, i)
            if not m:
                return []
            segs.append([[('ap', m.group(0)[1:-1])]])
            i = m.end()
            continue
        m = WORD.match(text, i)
        if m:
            alts = chunk_splits(m.group(0), kws)
            if not alts:
                return []
            segs.append(alts)
            i = m.end()
            continue
        return []
    total = 1
    for s in segs:
        total *= len(s)
        if total > limit:
            raise TooMany()
    out = [[]]
    for s in segs:
        out = [a + b for a in out for b in s]
    return out


# ---------------------------------------------------------------------------------------
# recursive descent with full backtracking: every function returns a set of (tree, next)

class _P(object):
    def __init__(self, toks, logic):
        self.t = toks
        self.logic = logic
        self.memo = {}

    def peek(self, i):
        return self.t[i][0] if i < len(self.t) else None

    def call(self, name, i):
        key = (name, i)
        if key not in self.memo:
            self.memo[key] = set()          # cut left recursion (none in these grammars)
            self.memo[key] = getattr(self, name)(i)
        return self.memo[key]

    # shared pieces -------------------------------------------------------------------
    def atom(self, i):
        k = self.peek(i)
        if k == 'true':
            return set([(fm.TRUE, i + 1)])
        if k == 'false':
            return set([(fm.FALSE, i + 1)])
        if k == 'ap':
            return set([(('ap', self.t[i][1]), i + 1)])
        return set()

    def paren(self, inner, i):
        out = set()
        if self.peek(i) == '(':
            for (t, j) in self.call(inner, i + 1):
                if self.peek(j) == ')':
                    out.add((t, j + 1))
        return out

    def binary_level(self, operand, i, ops_nary, ops_bin):
        """operand | operand (op operand)+ for n-ary ops | operand op operand for binary ops."""
        out = set()
        for (t, j) in self.call(operand, i):
            out.add((t, j))
            k = self.peek(j)
            if k in ops_nary:
                # one operator kind, repeated
                frontier = set([((t,), j)])
                while frontier:
                    nf = set()
                    for (ts, jj) in frontier:
                        if self.peek(jj) == k:
                            for (t2, j2) in self.call(operand, jj + 1):
                                nts = ts + (t2,)
                                out.add(((k,) + nts, j2))
                                nf.add((nts, j2))
                    frontier = nf
            elif k in ops_bin:
                for (t2, j2) in self.call(operand, j + 1):
                    out.add(((k, t, t2), j2))
        return out

    def unary(self, ops, operand, i):
        out = set()
        k = self.peek(i)
        if k in ops:
            for (t, j) in self.call(operand, i + 1):
                out.add(((k, t), j))
        return out


class _PL(_P):
    def s(self, i):
        return self.atom(i) | self.paren('s', i)

    def u(self, i):
        return self.unary(('not',), 'u', i) | self.paren('b', i) | self.call('s', i)

    def b(self, i):
        return self.binary_level('u', i, ('or', 'and'), ('imp',))

    def formula(self, i):
        return self.call('b', i)


class _CTLS(_P):
    def s(self, i):
        return self.atom(i) | self.unary(('A', 'E'), 'u', i) | self.paren('s', i)

    def u(self, i):
        return self.unary(('X', 'F', 'G', 'not'), 'u', i) | self.paren('p', i) | self.call('s', i)

    def p(self, i):
        return self.binary_level('u', i, ('or', 'and'), ('imp', 'U', 'R'))

    def formula(self, i):
        return self.call('p', i)


class _CTL(_P):
    def s(self, i):
        return (self.atom(i) | self.unary(('A', 'E'), 'p', i) | self.unary(('not',), 's', i) |
                self.paren('u', i))

    def u(self, i):
        return self.binary_level('s', i, ('or', 'and'), ('imp',))

    def p(self, i):
        out = self.unary(('X', 'F', 'G'), 's', i) | self.paren('p', i)
        for (t, j) in self.call('s', i):
            k = self.peek(j)
            if k in ('U', 'R'):
                for (t2, j2) in self.call('s', j + 1):
                    out.add(((k, t, t2), j2))
        return out

    def formula(self, i):
        return self.call('p', i) | self.call('u', i)


class _LTL(_P):
    def s(self, i):
        return self.unary(('A',), 'u', i)

    def p(self, i):
        return self.binary_level('u', i, ('or', 'and'), ('imp', 'U', 'R'))

    def u(self, i):
        return (self.atom(i) | self.paren('p', i) | self.unary(('not', 'X', 'F', 'G'), 'u', i))

    def formula(self, i):
        return self.call('s', i) | self.call('p', i)


GRAMMARS = {'PL': _PL, 'CTLS': _CTLS, 'CTL': _CTL, 'LTL': _LTL}


def parse_all(logic, text, limit=3000):
    """Set of trees the documented grammar of `logic` admits for the text, over every
    tokenisation.  Raises TooMany if there are more than `limit` tokenisations."""
    trees = set()
    for toks in tokenisations(logic, text, limit):
        p = GRAMMARS[logic](toks, logic)
        for (t, j) in p.call('formula', 0):
            if j == len(toks):
                trees.add(t)
    return trees
