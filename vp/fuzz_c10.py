"""Coverage-guided stage of C10 (atheris / libFuzzer), same oracle as the Hypothesis tier.

  python vp/fuzz_c10.py bytes|tokens -runs=N -seed=N -max_len=48

Prints `C10-FAILURE <json input>` and exits 1 on the first input for which check_parse fails.
"""
import json
import os
import sys

VERIF = os.path.dirname(os.path.dirname(os.path.abspath(__file__)))


def main():
    mode = sys.argv[1]
    argv = [sys.argv[0]] + sys.argv[2:]
    sys.path.insert(0, VERIF)
    deps = os.path.join(VERIF, '.deps')
    if os.path.isdir(deps):
        sys.path.insert(1, deps)
    import atheris
    from vp import core
    repo = core.REPO
    sys.path.insert(0, repo)
    with atheris.instrument_imports(include=['pyModelChecking', 'lark']):
        import lark  # noqa: F401
        import pyModelChecking  # noqa: F401
        import pyModelChecking.PL  # noqa: F401
        import pyModelChecking.CTL  # noqa: F401
        import pyModelChecking.LTL  # noqa: F401
        import pyModelChecking.CTLS  # noqa: F401
    core.bootstrap()
    from vp.props import c10
    vocab = c10.VOCAB + c10.JUNK

    def decode(data):
        if mode == 'bytes':
            return data.decode('utf-8', 'ignore')
        fdp = atheris.FuzzedDataProvider(data)
        n = fdp.ConsumeIntInRange(0, 14)
        toks = [vocab[fdp.ConsumeIntInRange(0, len(vocab) - 1)] for _ in range(n)]
        return (' ' if fdp.ConsumeBool() else '').join(toks)

    def one(data):
        text = decode(data)
        for logic in c10.LOGICS:
            inp = {'logic': logic, 'text': text}
            f = c10.check_parse(inp)
            if f is not None:
                sys.stdout.write('C10-FAILURE ' + json.dumps(inp) + '\n')
                sys.stdout.flush()
                os._exit(1)

    atheris.Setup(argv, one)
    atheris.Fuzz()


if __name__ == '__main__':
    main()
