"""Reference semantics (DESIGN 3.3).  Shares no code with /repo and none of its rewrite rules.

R-CTL  : textbook fixpoints, every operator native                        (ctl_eval)
R-STAR : CTL*/LTL/fair semantics through the explicit product of K with the valuation
         automaton of the path formula, generalised Buchi acceptance       (star_eval, exists)
R-PATH : evaluation of path formulas on ultimately periodic paths          (path_eval)

State sets are bit masks over states 0..n-1.
"""
from . import fm


class Model(object):
    def __init__(self, K):
        self.K = K
        self.n = n = K['n']
        self.full = (1 << n) - 1
        self.succ = [0] * n
        self.pred = [0] * n
        for (a, b) in K['edges']:
            self.succ[a] |= 1 << b
            self.pred[b] |= 1 << a
        self.lab = {}
        for i, l in enumerate(K['labels']):
            for a in l:
                self.lab[a] = self.lab.get(a, 0) | (1 << i)
        self.succ_list = [[j for j in range(n) if (self.succ[i] >> j) & 1] for i in range(n)]

    def pre_e(self, Z):
        r = 0
        for s in range(self.n):
            if self.succ[s] & Z:
                r |= 1 << s
        return r

    def pre_a(self, Z):
        r = 0
        nz = self.full & ~Z
        for s in range(self.n):
            if not (self.succ[s] & nz):
                r |= 1 << s
        return r


def mask_to_list(m):
    out = []
    i = 0
    while m:
        if m & 1:
            out.append(i)
        m >>= 1
        i += 1
    return out


def list_to_mask(xs):
    m = 0
    for x in xs:
        m |= 1 << x
    return m


# =======================================================================================
# R-CTL

def _lfp(fn):
    Z = 0
    while True:
        Z2 = fn(Z)
        if Z2 == Z:
            return Z
        Z = Z2


def _gfp(fn, full):
    Z = full
    while True:
        Z2 = fn(Z)
        if Z2 == Z:
            return Z
        Z = Z2


def ctl_eval(M, t, memo=None):
    """Mask of the states satisfying the CTL state formula t."""
    if memo is None:
        memo = {}
    if t in memo:
        return memo[t]
    k = t[0]
    full = M.full
    if k == 'ap':
        r = M.lab.get(t[1], 0)
    elif k == 'true':
        r = full
    elif k == 'false':
        r = 0
    elif k == 'set':
        r = t[1]
    elif k == 'not':
        r = full & ~ctl_eval(M, t[1], memo)
    elif k == 'and':
        r = full
        for c in t[1:]:
            r &= ctl_eval(M, c, memo)
    elif k == 'or':
        r = 0
        for c in t[1:]:
            r |= ctl_eval(M, c, memo)
    elif k == 'imp':
        r = (full & ~ctl_eval(M, t[1], memo)) | ctl_eval(M, t[2], memo)
    elif k in ('A', 'E'):
        g = t[1]
        pre = M.pre_e if k == 'E' else M.pre_a
        o = g[0]
        if o not in fm.TEMP:
            raise ValueError('not a CTL formula: %r' % (t,))
        a = ctl_eval(M, g[1], memo)
        if o == 'X':
            r = pre(a)
        elif o == 'F':
            r = _lfp(lambda Z: a | pre(Z))
        elif o == 'G':
            r = _gfp(lambda Z: a & pre(Z), full)
        else:
            b = ctl_eval(M, g[2], memo)
            if o == 'U':
                r = _lfp(lambda Z: b | (a & pre(Z)))
            else:   # a R b
                r = _gfp(lambda Z: b & (a | pre(Z)), full)
    else:
        raise ValueError('not a CTL state formula: %r' % (t,))
    memo[t] = r
    return r


# =======================================================================================
# R-STAR

def is_state_like(t):
    k = t[0]
    if k in ('ap', 'true', 'false', 'set') or k in fm.QUANT:
        return True
    if k in fm.BOOL:
        return all(is_state_like(c) for c in t[1:])
    return False


class Fair(object):
    """Fairness context: constraint sets as masks, the fair-state mask, Boolean reading."""

    def __init__(self, M, F, bool_as_atom=False):
        self.sets = [m for m in F]
        self.bool_as_atom = bool_as_atom
        self.states = exists(M, ('set', M.full), self.sets)


def star_eval(M, t, fair=None, memo=None):
    """Mask of the states satisfying the CTL* state formula t (fair semantics if given)."""
    if memo is None:
        memo = {}
    if t in memo:
        return memo[t]
    k = t[0]
    full = M.full
    if k == 'set':
        r = t[1]
    elif k == 'ap':
        r = M.lab.get(t[1], 0)
        if fair is not None:
            r &= fair.states
    elif k == 'true':
        r = full
        if fair is not None and fair.bool_as_atom:
            r &= fair.states
    elif k == 'false':
        r = 0
    elif k == 'not':
        r = full & ~star_eval(M, t[1], fair, memo)
    elif k == 'and':
        r = full
        for c in t[1:]:
            r &= star_eval(M, c, fair, memo)
    elif k == 'or':
        r = 0
        for c in t[1:]:
            r |= star_eval(M, c, fair, memo)
    elif k == 'imp':
        r = (full & ~star_eval(M, t[1], fair, memo)) | star_eval(M, t[2], fair, memo)
    elif k == 'E':
        r = exists(M, abstract(M, t[1], fair, memo), fair.sets if fair else ())
    elif k == 'A':
        r = full & ~exists(M, abstract(M, ('not', t[1]), fair, memo),
                           fair.sets if fair else ())
    else:
        raise ValueError('not a CTL* state formula: %r' % (t,))
    memo[t] = r
    return r


def abstract(M, g, fair=None, memo=None):
    """Replace the maximal state subformulas of the path formula g by ('set', mask)."""
    if g[0] == 'set':
        return g
    if is_state_like(g):
        return ('set', star_eval(M, g, fair, memo))
    return (g[0],) + tuple(abstract(M, c, fair, memo) for c in g[1:])


def _postorder(t, acc):
    for c in fm.children(t):
        _postorder(c, acc)
    if t not in acc:
        acc.append(t)
    return acc


class Product(object):
    """K x valuation automaton of an abstracted path formula."""

    def __init__(self, M, ga, fair_sets=()):
        self.M = M
        self.ga = ga
        subs = _postorder(ga, [])
        temps = [t for t in subs if t[0] in fm.TEMP]
        k = len(temps)
        tidx = dict((t, i) for i, t in enumerate(temps))
        self.k = k
        W = 1 << k
        self.W = W
        n = M.n
        # value of every subformula at every node
        val = []
        for s in range(n):
            for v in range(W):
                d = {}
                for f in subs:
                    o = f[0]
                    if o == 'set':
                        x = bool((f[1] >> s) & 1)
                    elif o == 'not':
                        x = not d[f[1]]
                    elif o == 'and':
                        x = all(d[c] for c in f[1:])
                    elif o == 'or':
                        x = any(d[c] for c in f[1:])
                    elif o == 'imp':
                        x = (not d[f[1]]) or d[f[2]]
                    else:
                        x = bool((v >> tidx[f]) & 1)
                    d[f] = x
                val.append(d)
        self.val = val
        N = n * W
        self.N = N
        adj = [[] for _ in range(N)]
        for s in range(n):
            for v in range(W):
                u = s * W + v
                cur = val[u]
                for s2 in M.succ_list[s]:
                    for v2 in range(W):
                        w = s2 * W + v2
                        nxt = val[w]
                        ok = True
                        for t in temps:
                            o = t[0]
                            if o == 'X':
                                e = nxt[t[1]]
                            elif o == 'F':
                                e = cur[t[1]] or nxt[t]
                            elif o == 'G':
                                e = cur[t[1]] and nxt[t]
                            elif o == 'U':
                                e = cur[t[2]] or (cur[t[1]] and nxt[t])
                            else:
                                e = cur[t[2]] and (cur[t[1]] or nxt[t])
                            if e != cur[t]:
                                ok = False
                                break
                        if ok:
                            adj[u].append(w)
        self.adj = adj
        acc = []
        for t in temps:
            o = t[0]
            if o == 'F':
                acc.append(set(u for u in range(N) if (not val[u][t]) or val[u][t[1]]))
            elif o == 'U':
                acc.append(set(u for u in range(N) if (not val[u][t]) or val[u][t[2]]))
            elif o == 'G':
                acc.append(set(u for u in range(N) if val[u][t] or not val[u][t[1]]))
            elif o == 'R':
                acc.append(set(u for u in range(N) if val[u][t] or not val[u][t[2]]))
        for P in fair_sets:
            acc.append(set(u for u in range(N) if (P >> (u // W)) & 1))
        self.acc = acc
        self._solve()

    def _sccs(self):
        """Tarjan, iterative."""
        N = self.N
        adj = self.adj
        index = [None] * N
        low = [0] * N
        onst = [False] * N
        st = []
        out = []
        counter = [0]
        for root in range(N):
            if index[root] is not None:
                continue
            work = [(root, 0)]
            index[root] = low[root] = counter[0]
            counter[0] += 1
            st.append(root)
            onst[root] = True
            while work:
                u, i = work.pop()
                if i < len(adj[u]):
                    work.append((u, i + 1))
                    w = adj[u][i]
                    if index[w] is None:
                        index[w] = low[w] = counter[0]
                        counter[0] += 1
                        st.append(w)
                        onst[w] = True
                        work.append((w, 0))
                    elif onst[w]:
                        low[u] = min(low[u], index[w])
                else:
                    if work:
                        p = work[-1][0]
                        low[p] = min(low[p], low[u])
                    if low[u] == index[u]:
                        comp = []
                        while True:
                            w = st.pop()
                            onst[w] = False
                            comp.append(w)
                            if w == u:
                                break
                        out.append(comp)
        return out

    def _solve(self):
        fair_nodes = set()
        self.fair_comps = []
        for comp in self._sccs():
            cs = set(comp)
            if len(comp) == 1 and comp[0] not in self.adj[comp[0]]:
                continue
            if all(cs & a for a in self.acc):
                fair_nodes |= cs
                self.fair_comps.append(cs)
        self.comp_of = {}
        for cs in self.fair_comps:
            for u in cs:
                self.comp_of[u] = cs
        # backward reachability
        radj = [[] for _ in range(self.N)]
        for u in range(self.N):
            for w in self.adj[u]:
                radj[w].append(u)
        win = set(fair_nodes)
        stack = list(fair_nodes)
        while stack:
            u = stack.pop()
            for p in radj[u]:
                if p not in win:
                    win.add(p)
                    stack.append(p)
        self.win = win

    def result(self):
        r = 0
        for s in range(self.M.n):
            if self.start_node(s) is not None:
                r |= 1 << s
        return r

    def start_node(self, s):
        for v in range(self.W):
            u = s * self.W + v
            if u in self.win and self.val[u][self.ga]:
                return u
        return None

    # ---- certificates ------------------------------------------------------------------
    def _bfs(self, src, targets, within=None, min_len=0):
        """Shortest node path src -> some target (>= min_len edges), list of nodes."""
        if min_len == 0 and src in targets:
            return [src]
        prev = {}
        frontier = [src]
        while frontier:
            nf = []
            for u in frontier:
                for w in self.adj[u]:
                    if within is not None and w not in within:
                        continue
                    if w in prev:
                        continue
                    prev[w] = u
                    if w in targets:
                        path = [w]
                        x = u
                        while x != src:
                            path.append(x)
                            x = prev[x]
                        path.append(src)
                        path.reverse()
                        return path
                    nf.append(w)
            frontier = nf
        return None

    def lasso(self, s):
        """(prefix_states, loop_states) of K for a path from s satisfying ga, or None."""
        u0 = self.start_node(s)
        if u0 is None:
            return None
        allfair = set(self.comp_of)
        p = self._bfs(u0, allfair)
        c0 = p[-1]
        C = self.comp_of[c0]
        loop = [c0]
        for a in self.acc:
            q = self._bfs(loop[-1], a & C, within=C)
            loop.extend(q[1:])
        q = self._bfs(loop[-1], set([c0]), within=C, min_len=1)
        loop.extend(q[1:])
        loop = loop[:-1]                      # last == c0 again
        prefix = p[:-1]
        W = self.W
        return [x // W for x in prefix], [x // W for x in loop]


def exists(M, ga, fair_sets=()):
    """Mask of states from which some (fair) path satisfies the abstracted path formula."""
    return Product(M, ga, fair_sets).result()


def exists_with_lassos(M, ga, fair_sets=()):
    P = Product(M, ga, fair_sets)
    r = P.result()
    return r, dict((s, P.lasso(s)) for s in mask_to_list(r))


# =======================================================================================
# R-PATH: ultimately periodic paths

def path_eval(states, loop_start, f, memo=None):
    """Truth of the (abstracted) path formula f at every position of the lasso.

    states: list of K-states; positions 0..m-1; the successor of m-1 is loop_start.
    """
    if memo is None:
        memo = {}
    if f in memo:
        return memo[f]
    m = len(states)
    nxt = list(range(1, m)) + [loop_start]
    o = f[0]
    if o == 'set':
        r = [bool((f[1] >> s) & 1) for s in states]
    elif o == 'not':
        r = [not x for x in path_eval(states, loop_start, f[1], memo)]
    elif o in ('and', 'or'):
        cols = [path_eval(states, loop_start, c, memo) for c in f[1:]]
        fn = all if o == 'and' else any
        r = [fn(c[i] for c in cols) for i in range(m)]
    elif o == 'imp':
        a = path_eval(states, loop_start, f[1], memo)
        b = path_eval(states, loop_start, f[2], memo)
        r = [(not a[i]) or b[i] for i in range(m)]
    elif o == 'X':
        a = path_eval(states, loop_start, f[1], memo)
        r = [a[nxt[i]] for i in range(m)]
    else:
        if o in ('F', 'G'):
            a = None
            b = path_eval(states, loop_start, f[1], memo)
        else:
            a = path_eval(states, loop_start, f[1], memo)
            b = path_eval(states, loop_start, f[2], memo)
        least = o in ('F', 'U')
        r = [not least] * m
        while True:
            r2 = []
            for i in range(m):
                if o == 'F':
                    x = b[i] or r[nxt[i]]
                elif o == 'G':
                    x = b[i] and r[nxt[i]]
                elif o == 'U':
                    x = b[i] or (a[i] and r[nxt[i]])
                else:
                    x = b[i] and (a[i] or r[nxt[i]])
                r2.append(x)
            if r2 == r:
                break
            r = r2
    memo[f] = r
    return r


def check_lasso(M, s, prefix, loop, ga, fair_sets=()):
    """None if (prefix, loop) is a genuine (fair) path of K from s satisfying ga, else why not."""
    states = list(prefix) + list(loop)
    if not loop:
        return 'empty loop'
    if states[0] != s:
        return 'does not start at %d' % s
    for i in range(len(states) - 1):
        if not (M.succ[states[i]] >> states[i + 1]) & 1:
            return 'no edge %d->%d' % (states[i], states[i + 1])
    if not (M.succ[states[-1]] >> loop[0]) & 1:
        return 'loop does not close'
    lm = list_to_mask(loop)
    for P in fair_sets:
        if not (lm & P):
            return 'loop misses a fairness set'
    if not path_eval(states, len(prefix), ga)[0]:
        return 'R-PATH says the path does not satisfy the formula'
    return None


def all_lassos(M, s, maxlen):
    """Every lasso from s with |prefix|+|loop| <= maxlen as (states, loop_start)."""
    path = [s]

    def rec():
        last = path[-1]
        for j in range(len(path)):
            if (M.succ[last] >> path[j]) & 1:
                yield list(path), j
        if len(path) < maxlen:
            for w in M.succ_list[last]:
                path.append(w)
                for x in rec():
                    yield x
                path.pop()
    return rec()
