"""Runner plumbing: bootstrap, evidence, replay files, known findings, sharding.

Exit codes (DESIGN 3.4): 0 held, 1 violation (prints a VIOLATION line), 2 harness error.
"""
import contextlib
import hashlib
import io
import json
import os
import sys
import time
import traceback

VERIF = os.path.dirname(os.path.dirname(os.path.abspath(__file__)))
REPO = os.environ.get('VERIF_REPO', '/repo')
NPROC = int(os.environ.get('VERIF_NPROC', '16'))
# where evidence/ and replay/ are written (redirected during sensitivity runs on mutants)
OUT = os.environ.get('VERIF_OUT', VERIF)


class HarnessError(Exception):
    """The harness (not the code under test) is broken: exit 2, never a VIOLATION."""


class Refused(Exception):
    """The library refused to BUILD an input the harness only ever generates inside the documented
    domain (a total Kripke structure from list/set/tuple containers): the property cannot hold for that
    input, so this becomes a violation of the running check, not a harness error."""

    def __init__(self, failure):
        Exception.__init__(self, repr(failure))
        self.failure = failure


def bootstrap():
    """Put the tree under test first on sys.path and check where it is imported from."""
    deps = os.path.join(VERIF, '.deps')
    if os.path.isdir(deps) and deps not in sys.path:
        sys.path.insert(1, deps)
    if REPO not in sys.path:
        sys.path.insert(0, REPO)
    sys.dont_write_bytecode = True
    import pyModelChecking
    where = os.path.realpath(pyModelChecking.__file__)
    if not where.startswith(os.path.realpath(REPO) + os.sep):
        raise HarnessError('pyModelChecking imported from %s, not from %s' % (where, REPO))
    try:
        import hypothesis  # noqa: F401
    except ImportError:
        raise HarnessError('hypothesis is not importable; run MANIFEST.setup_cmd')


@contextlib.contextmanager
def quiet():
    """Swallow what the code under test prints (CTLS.modelcheck prints caught errors)."""
    old = sys.stdout
    sys.stdout = io.StringIO()
    try:
        yield
    finally:
        sys.stdout = old


def canon(x):
    """Canonical JSON text of a case (the unit that is counted as 'distinct')."""
    return json.dumps(x, sort_keys=True, separators=(',', ':'), default=_default)


def _default(o):
    if isinstance(o, (set, frozenset)):
        return sorted(o, key=repr)
    if isinstance(o, tuple):
        return list(o)
    return repr(o)


def digest(x):
    return hashlib.sha1(canon(x).encode()).hexdigest()[:12]


class Failure(object):
    """A property violation on one concrete input (JSON-able)."""

    def __init__(self, check, input, expected, actual, note=''):
        self.check = check
        self.input = input
        self.expected = expected
        self.actual = actual
        self.note = note

    def as_dict(self):
        return {'check': self.check, 'input': self.input, 'expected': self.expected,
                'actual': self.actual, 'note': self.note}

    def __repr__(self):
        return 'Failure(%s, input=%s, expected=%s, actual=%s %s)' % (
            self.check, canon(self.input)[:400], canon(self.expected)[:200],
            canon(self.actual)[:200], self.note)


class Stats(object):
    """Counters that can be merged across worker processes."""

    def __init__(self):
        self.evaluations = 0
        self.nontrivial = 0          # count for enumerated (distinct by construction) cases
        self.nontrivial_digests = set()   # for randomly generated cases
        self.classes = {}
        self.samples = []
        self.sample_classes = set()
        self.extra = {}
        self.excluded_known = {}
        self.failure = None          # first Failure in enumeration order

    def bump(self, cls, n=1):
        self.classes[cls] = self.classes.get(cls, 0) + n

    def add_extra(self, key, n=1):
        self.extra[key] = self.extra.get(key, 0) + n

    def sample(self, case, cls=None, limit=12):
        """Keep a few cases, preferring one per class."""
        if cls is not None:
            if cls in self.sample_classes:
                return
            if len(self.samples) < 3 * limit:
                self.sample_classes.add(cls)
                self.samples.append(case)
        elif len(self.samples) < limit:
            self.samples.append(case)

    def random_case(self, case, nontrivial):
        self.evaluations += 1
        if nontrivial:
            self.nontrivial_digests.add(digest(case))

    def known(self, kid, n=1):
        self.excluded_known[kid] = self.excluded_known.get(kid, 0) + n

    def merge(self, other):
        self.evaluations += other.evaluations
        self.nontrivial += other.nontrivial
        self.nontrivial_digests |= other.nontrivial_digests
        for k, v in other.classes.items():
            self.classes[k] = self.classes.get(k, 0) + v
        for k, v in other.extra.items():
            self.extra[k] = self.extra.get(k, 0) + v
        for k, v in other.excluded_known.items():
            self.excluded_known[k] = self.excluded_known.get(k, 0) + v
        for s in other.samples:
            if len(self.samples) < 24:
                self.samples.append(s)
        if self.failure is None:
            self.failure = other.failure

    @property
    def distinct_nontrivial(self):
        return self.nontrivial + len(self.nontrivial_digests)


class Ctx(object):
    """Everything one run of one property needs."""

    def __init__(self, pid, tier, seed):
        self.pid = pid
        self.tier = tier
        self.seed = seed
        self.stats = Stats()
        self.t0 = time.time()
        self.rule = ''
        self.exhaustive = False
        self.scopes = []
        self.assumptions = []
        self.known_lines = []
        self.violations = []
        self.notes = {}

    @property
    def thorough(self):
        return self.tier == 'thorough'

    def pick(self, quick, thorough):
        return thorough if self.thorough else quick

    # -- verdicts ----------------------------------------------------------------------
    def violation(self, failure):
        path = write_replay(self, failure)
        self.violations.append(path)
        sys.stdout.write('VIOLATION property=%s replay=%s\n' % (self.pid, path))
        sys.stdout.write('  detail: %r\n' % (failure,))
        sys.stdout.flush()
        return path

    def known_finding(self, text):
        line = 'KNOWN-FINDING: property=%s %s' % (self.pid, text)
        if line not in self.known_lines:
            self.known_lines.append(line)
            sys.stdout.write(line + '\n')
            sys.stdout.flush()

    # -- evidence ----------------------------------------------------------------------
    def write_evidence(self):
        st = self.stats
        import re
        sampled = [x for x in self.scopes
                   if re.search(r'every \d|every other|strided|stride|sample|Hypothesis|machines|random|corpus', x)]
        complete = [x for x in self.scopes if x not in sampled]
        cov = {
            'evaluations': int(st.evaluations),
            'distinct_nontrivial': int(st.distinct_nontrivial),
            'rule': self.rule,
            'samples': st.samples[:24],
            # true only if at least one named finite scope was enumerated completely
            'exhaustive': bool(self.exhaustive and complete),
            'scopes_enumerated_completely': complete,
            'scopes_sampled': sampled,
            'classes': dict(sorted(st.classes.items())),
            'empty_classes': sorted(k for k, v in st.classes.items() if v == 0),
            'excluded_known': dict(sorted(st.excluded_known.items())),
        }
        cov.update(st.extra)
        cov.update(self.notes)
        ev = {
            'property_id': self.pid,
            'tier': self.tier,
            'seed': int(self.seed),
            'level': 'exploration',
            'coverage': cov,
            'assumptions': self.assumptions,
            'wall_s': round(time.time() - self.t0, 2),
            'violations': len(self.violations),
        }
        d = os.path.join(OUT, 'evidence')
        os.makedirs(d, exist_ok=True)
        tmp = os.path.join(d, '%s.json.tmp' % self.pid)
        with open(tmp, 'w') as fh:
            json.dump(ev, fh, indent=1, sort_keys=True, default=_default)
            fh.write('\n')
        os.replace(tmp, os.path.join(d, '%s.json' % self.pid))
        return ev


def write_replay(ctx, failure):
    d = os.path.join(OUT, 'replay')
    os.makedirs(d, exist_ok=True)
    rec = {'property': ctx.pid, 'seed': ctx.seed, 'tier': ctx.tier}
    rec.update(failure.as_dict())
    path = os.path.join(d, '%s-%s.json' % (ctx.pid, digest([failure.check, failure.input])))
    with open(path, 'w') as fh:
        json.dump(rec, fh, indent=1, sort_keys=True, default=_default)
        fh.write('\n')
    return path


def load_corpus(pid):
    """Replay files of defects since fixed (and hand-written regressions)."""
    d = os.path.join(VERIF, 'corpus', pid)
    out = []
    if os.path.isdir(d):
        for name in sorted(os.listdir(d)):
            if name.endswith('.json'):
                with open(os.path.join(d, name)) as fh:
                    out.append((name, json.load(fh)))
    return out


def load_known(pid):
    """Entries of /verif/known_findings.txt for one property (never written at run time)."""
    path = os.path.join(VERIF, 'known_findings.txt')
    out = []
    if not os.path.exists(path):
        return out
    with open(path) as fh:
        for line in fh:
            line = line.strip()
            if not line.startswith('known:'):
                continue
            head, _, what = line[len('known:'):].partition('::')
            fields = {}
            # witness=<json> is the last field and may contain spaces
            if ' witness=' in head:
                head, _, wit = head.partition(' witness=')
                fields['witness'] = json.loads(wit.strip())
            for tok in head.split():
                k, _, v = tok.partition('=')
                fields[k] = v
            fields['what'] = what.strip()
            if fields.get('property') == pid:
                out.append(fields)
    return out


# ---------------------------------------------------------------------------------------
# sharded exhaustive enumeration

def _worker(args):
    fn, shard, nshards, payload = args
    try:
        bootstrap()
        st = Stats()
        try:
            fn(st, shard, nshards, payload)
        except Refused as r:
            if st.failure is None:
                st.failure = r.failure
        return st
    except BaseException:
        return ('error', traceback.format_exc())


def run_sharded(ctx, fn, payload=None, nshards=None):
    """Run fn(stats, shard, nshards, payload) in NPROC processes; merge in shard order.

    fn must enumerate deterministically and take the items i with i % nshards == shard, so
    that the merged 'first failure' does not depend on scheduling.
    """
    import multiprocessing as mp
    nshards = nshards or NPROC
    if nshards == 1:
        res = [_worker((fn, 0, 1, payload))]
    else:
        with mp.get_context('fork').Pool(min(NPROC, nshards)) as pool:
            res = pool.map(_worker, [(fn, i, nshards, payload) for i in range(nshards)])
    for r in res:
        if isinstance(r, tuple) and r and r[0] == 'error':
            raise HarnessError('worker crashed:\n' + r[1])
    for r in res:
        ctx.stats.merge(r)
    f = ctx.stats.failure
    ctx.stats.failure = None
    return f


def describe_scopes(scopes, legend):
    """Evidence text for a list of (n, formula-scope key, structure stride) triples, generated from the
    list itself (hand-written descriptions go stale): one line per formula scope; 'name/k' = every k-th
    formula of scope 'name'."""
    def ordinal(k):
        return '%d%s' % (k, 'th' if 10 <= k % 100 <= 20 else {1: 'st', 2: 'nd', 3: 'rd'}.get(k % 10, 'th'))
    by = {}
    order = []
    for (n, key, stride) in scopes:
        key = str(key)
        base, _, fs = key.partition('/')
        # complete and sampled parts of one formula scope go to separate lines (the evidence lists them apart)
        k = (base, int(fs) if fs else 1, stride == 1)
        if k not in by:
            by[k] = []
            order.append(k)
        by[k].append('S(%d)' % n if stride == 1 else 'every %s of S(%d)' % (ordinal(stride), n))
    out = []
    for (base, fs, whole) in order:
        what = legend.get(base, 'formulas with <= %s operators' % base if base.isdigit() else base)
        every = '' if fs == 1 else 'every %s of: ' % ordinal(fs)
        out.append('%s x %s%s' % (' + '.join(by[(base, fs, whole)]), every, what))
    return out


def run_random(ctx, fn, n_quick, n_thorough, shards_quick=8, shards_thorough=16, extra=None):
    """Run a module-level `fn(stats, shard, nshards, payload)` that drives Hypothesis with
    hyp_run(payload['seed'] * 1000 + shard, ..., payload['n']) in several processes."""
    shards = ctx.pick(shards_quick, shards_thorough)
    n = max(1, ctx.pick(n_quick, n_thorough) // shards)
    payload = dict(seed=ctx.seed, n=n, tier=ctx.tier)
    payload.update(extra or {})
    ctx.scopes.append('%d Hypothesis processes x %d cases' % (shards, n))
    return run_sharded(ctx, fn, payload, nshards=shards)


# ---------------------------------------------------------------------------------------
# Hypothesis glue

def hyp_settings(max_examples, shrink=True, stateful_step_count=None):
    from hypothesis import settings, HealthCheck, Phase
    phases = [Phase.explicit, Phase.generate]
    if shrink:
        phases.append(Phase.shrink)
    kw = dict(max_examples=max_examples, database=None, deadline=None,
              report_multiple_bugs=False, derandomize=False, phases=tuple(phases),
              suppress_health_check=[HealthCheck.too_slow, HealthCheck.data_too_large,
                                     HealthCheck.large_base_example],
              print_blob=False)
    if stateful_step_count is not None:
        kw['stateful_step_count'] = stateful_step_count
    return settings(**kw)


class Found(Exception):
    """Raised inside a Hypothesis test body when a check fails."""

    def __init__(self, failure):
        Exception.__init__(self, repr(failure))
        self.failure = failure


def run_hypothesis(ctx, strategy, body, max_examples, seed_offset=0, shrink=True):
    """Drive `body(case) -> Failure|None` over `strategy`; return the shrunk Failure or None.

    body also receives ctx.stats through closure for counting; cases must be JSON-able.
    """
    return hyp_run(ctx.seed * 1000 + seed_offset, strategy, body, max_examples, shrink)


def hyp_run(seed_value, strategy, body, max_examples, shrink=True):
    """Same, with an explicit seed (used inside sharded workers: one seed per process)."""
    from hypothesis import given, seed
    from hypothesis.errors import FailedHealthCheck, Unsatisfiable, Flaky
    last = {}

    @seed(seed_value)
    @hyp_settings(max_examples, shrink=shrink)
    @given(strategy)
    def test(case):
        f = body(case)
        if f is not None:
            last['f'] = f
            raise Found(f)

    try:
        test()
    except Found as e:
        return last.get('f', e.failure)
    except (FailedHealthCheck, Unsatisfiable) as e:
        raise HarnessError('generator problem: %r' % (e,))
    except Refused as r:
        return r.failure
    except Flaky as e:
        if 'f' in last:
            return last['f']
        raise HarnessError('flaky: %r' % (e,))
    return None
